(* Model of probdiffeq/_probdiffeq/jet_expansion_algorithms.py on polynomial
   vector fields (Spec/ODESeries.v: vfield = order k, dimension d, one
   polynomial per dimension over x_{j,b} (index j*d+b) and t (index k*d)).

     args_aj            problems.args_autonomous_and_jet_compatible
     jet_poly           jax.experimental.jet (factorial_scaled=True) on a
                        polynomial program = composition in the truncated
                        power-series ring (Base/Series.v); derivative
                        convention in and out
     increment          jetexpand_ode_coefficient_increment
     unroll_model       jetexpand_ode_unroll
     padded_scan_model  jetexpand_ode_padded_scan (zero padding, [:-1])
     via_jvp_fixed_model  jetexpand_ode_via_jvp AS CODED NOW (repo commit 46ebe36):
                        F_{n+1} = <grad_x F_n, (x_1..x_{k-1}, f)> + dF_n/dt, computed
                        symbolically; t is one more primal with tangent one
     via_jvp_model      the routine BEFORE that repair (finding F4): t CLOSED OVER,
                        never differentiated; kept as documentation of the
                        repaired defect and to recognise it should it return
     doubling_model     jetexpand_ode_doubling_unroll: Newton doubling on
                        normalised coefficients, jvp of the embedded jet,
                        factorial rescaling at the end; t closed over
     pytree_expand      _allow_pytree_inits: ravel / unravel bookkeeping
                        (flattening order: dict keys sorted, tuples in order)

   A Taylor coefficient is a d-vector (list F); all routines take and return
   DERIVATIVES (u, u', u'', ...), not normalised coefficients.  Python
   exceptions are [None].  Definitions only. *)
From Coq Require Import List Arith Bool.
From PD Require Import Base.Field Base.Matrix Model.Poly Base.Series Spec.ODESeries.
Import ListNotations.

Section Jet.
  Context {F : Type} `{FieldOps F}.
  Local Open Scope F_scope.
  Local Notation poly := (@poly F).
  Local Notation vfield := (@vfield F).
  Local Notation tvec := (list F).   (* a Taylor coefficient: a d-vector *)

  Fixpoint zipw {A B C : Type} (g : A -> B -> C) (l1 : list A) (l2 : list B) : list C :=
    match l1, l2 with
    | x :: xs, y :: ys => g x y :: zipw g xs ys
    | _, _ => []
    end.
  Fixpoint set_nth {A : Type} (n : nat) (x : A) (l : list A) : list A :=
    match l, n with
    | [], _ => []
    | _ :: r, O => x :: r
    | y :: r, S n' => y :: set_nth n' x r
    end.
  Fixpoint iter_opt {A : Type} (n : nat) (g : A -> option A) (x : A) : option A :=
    match n with
    | O => Some x
    | S n' => match g x with None => None | Some y => iter_opt n' g y end
    end.

  (* ------------------------------------------------- plain evaluation *)
  Definition vf_env (coords : list tvec) (t : F) : list F := concat coords ++ [t].
  (* vf.vector_field(jet_coords=coords, t=t): the wrappers unpack exactly k coords *)
  Definition vf_eval (v : vfield) (coords : list tvec) (t : F) : option tvec :=
    if Nat.eqb (length coords) (vf_k v)
    then Some (map (eval_poly (vf_env coords t)) (vf_f v))
    else None.

  (* ------------------------------- args_autonomous_and_jet_compatible *)
  (* Python l[lo : len(l) - drop] *)
  Definition pyslice {A : Type} (lo drop : nat) (l : list A) : list A :=
    firstn (length l - drop - lo) (skipn lo l).

  Definition args_aj {A : Type} (tc : list A) (k : nat) (t : F)
    : (list A * F) * (list (list A) * list F) :=
    let series := tl tc in
    let series_u := map (fun j => pyslice j (k - 1 - j) series) (seq 0 k) in
    let len0 := length (nth 0 series_u []) in
    ((firstn k tc, t), (series_u, 1 :: repeat 0 (len0 - 1))).

  (* ---------------------------------------------------------- jet *)
  (* jet(f, primals, series) with factorial_scaled=True for the polynomial
     program fs over the variables (primals_u[0][0..d-1], ..., t):
     every input series must have the same length n (else jet raises);
     returns f(primals) and the derivatives of order 1..n of tau |-> f(curve) *)
  Definition jet_env (d : nat) (pu : list tvec) (pt : F) (su : list (list tvec)) (st : list F)
    : list series :=
    flat_map (fun ps : tvec * list tvec =>
                map (fun b => to_norm (vget (fst ps) b :: map (fun c => vget c b) (snd ps)))
                    (seq 0 d))
             (combine pu su)
    ++ [to_norm (pt :: st)].

  Definition jet_poly (d : nat) (fs : list poly) (pu : list tvec) (pt : F)
             (su : list (list tvec)) (st : list F) : option (tvec * list tvec) :=
    let n := length st in
    if forallb (fun s => Nat.eqb (length s) n) su && Nat.eqb (length pu) (length su)
    then
      let outs := map (fun p => to_deriv (scompose (S n) (jet_env d pu pt su st) p)) fs in
      Some (map (fun o => sget o 0) outs,
            map (fun l => map (fun o => sget o (S l)) outs) (seq 0 n))
    else None.

  (* -------------------------------- jetexpand_ode_coefficient_increment *)
  Definition increment (v : vfield) (tc : list tvec) (t : F) : option (list tvec) :=
    let '((pu, pt), (su, st)) := args_aj tc (vf_k v) t in
    match jet_poly (vf_d v) (vf_f v) pu pt su st with
    | None => None
    | Some (p, s_new) => Some (firstn (vf_k v) tc ++ [p] ++ s_new)
    end.

  (* ------------------------------------------------ jetexpand_ode_unroll *)
  Definition unroll_model (v : vfield) (inits : list tvec) (t : F) (num : nat)
    : option (list tvec) :=
    match num with
    | O => Some inits
    | S num' =>
      match vf_eval v inits t with
      | None => None
      | Some p => iter_opt num' (fun tc => increment v tc t) (inits ++ [p])
      end
    end.

  (* ------------------------------------------- jetexpand_ode_padded_scan *)
  Definition padded_scan_model (v : vfield) (inits : list tvec) (t : F) (num : nat)
    : option (list tvec) :=
    match num with
    | O => Some inits
    | S num' =>
      match vf_eval v inits t with
      | None => None
      | Some p =>
        let tc := inits ++ [p] in
        match num' with
        | O => Some tc
        | S _ =>
          let zeros := map (fun _ => 0) p in
          let num_outputs := (length inits + num)%nat in
          let padded := tc ++ repeat zeros (num_outputs - length tc) in
          iter_opt num'
            (fun tc => match increment v tc t with
                       | None => None
                       | Some tc' => Some (removelast tc')
                       end)
            padded
        end
      end
    end.

  (* polynomial arithmetic on data (padd, pmul, pvar): Base/Series.v *)

  (* ---------------------------------------------- jetexpand_ode_via_jvp *)
  (* the tangent handed to jvp for the state variable x_{j,b}: x_{j+1,b} for
     j+1 < k and f_b for j+1 = k  (vals[1:] where vals = jet_coords followed by fun_0(jet_coords)) *)
  Definition jvp_tangent (v : vfield) (j b : nat) : poly :=
    let k := vf_k v in let d := vf_d v in
    if Nat.ltb (S j) k then pvar (S (k * d)) (S j * d + b) else nth b (vf_f v) [].

  (* _fwd_recursion_iterate on one component, the state part: sum over the
     STATE variables (before the repair this was the whole step: the time
     variable, index k*d, was closed over) *)
  Definition jvp_step_poly (v : vfield) (g : poly) : poly :=
    let k := vf_k v in let d := vf_d v in
    fold_right (fun idx acc =>
                  padd (pmul (diff_poly idx g) (jvp_tangent v (idx / d) (idx mod d))) acc)
               [] (seq 0 (k * d)).
  Definition jvp_step (v : vfield) (G : list poly) : list poly := map (jvp_step_poly v) G.

  Fixpoint jvp_polys (v : vfield) (n : nat) : list poly :=
    match n with O => vf_f v | S n' => jvp_step v (jvp_polys v n') end.

  (* g_0, g_1, ..., g_{n-1}: the loop of the code (each g_{i+1} built from g_i) *)
  Fixpoint jvp_iter (v : vfield) (G : list poly) (n : nat) : list (list poly) :=
    match n with O => [] | S n' => G :: jvp_iter v (jvp_step v G) n' end.

  (* the routine BEFORE the repair (t closed over): documentation of finding F4 *)
  Definition via_jvp_model (v : vfield) (inits : list tvec) (t : F) (num : nat)
    : option (list tvec) :=
    match num with
    | O => Some inits
    | S num' =>
      if Nat.eqb (length inits) (vf_k v)
      then Some (inits ++ map (fun G => map (eval_poly (vf_env inits t)) G)
                              (jvp_iter v (vf_f v) num))
      else None
    end.

  (* jetexpand_ode_via_jvp AS CODED NOW: vf_wrapped(jet_coords.., t) and
     _fwd_recursion_iterate hand t to jvp as one more primal with tangent
     ones_like(t), i.e.  F_{n+1} = <grad_x F_n, (x_1, .., x_{k-1}, f)> + dF_n/dt *)
  Definition pone : poly := [(1, [])].
  Definition jvp_step_poly_fixed (v : vfield) (g : poly) : poly :=
    padd (jvp_step_poly v g) (pmul (diff_poly (vf_k v * vf_d v) g) pone).
  Fixpoint jvp_polys_fixed (v : vfield) (n : nat) : list poly :=
    match n with O => vf_f v | S n' => map (jvp_step_poly_fixed v) (jvp_polys_fixed v n') end.
  Definition via_jvp_fixed_model (v : vfield) (inits : list tvec) (t : F) (num : nat)
    : option (list tvec) :=
    match num with
    | O => Some inits
    | S _ =>
      if Nat.eqb (length inits) (vf_k v)
      then Some (inits ++ map (fun n => map (eval_poly (vf_env inits t)) (jvp_polys_fixed v n))
                              (seq 0 num))
      else None
    end.


  (* ------------------------------------- jetexpand_ode_doubling_unroll *)
  (* the embedded jet: coefficients c ++ zeros (length N = 2 deg), the time
     variable is the CONSTANT series t (closed over) *)
  Definition dbl_env (N d : nat) (tc : list tvec) (t : F) : list series :=
    map (fun b => mkv N (fun i => vget (nth i tc []) b)) (seq 0 d) ++ [sconst N t].

  Definition double (v : vfield) (t : F) (tc : list tvec) : list tvec :=
    let d := vf_d v in
    let deg := length tc in
    let N := (2 * deg)%nat in
    let env := dbl_env N d tc t in
    (* fx = jet_embedded applied to tc: normalised coefficients 0..2deg-1 of f(C(tau)) *)
    let fx := map (scompose N env) (vf_f v) in
    let fxi := fun i => map (fun s => sget s i) fx in
    (* linearisation of jet_embedded at tc: the coefficient series of the
       Jacobian (d f_a / d u_b)(C(tau)) *)
    let Jac := map (fun p => map (fun b => scompose N env (diff_poly b p)) (seq 0 d)) (vf_f v) in
    (* jvp(E_0..E_{deg-1})[i] = [tau^i] sum_b Jac_ab(tau) * (sum_j E_j[b] tau^j) *)
    let jvp_i := fun (E : list tvec) (i : nat) =>
      map (fun Ja =>
             vsum d (fun b =>
               fs_mul (sget (nth b Ja []))
                      (fun j => if Nat.ltb j deg then vget (nth j E []) b else 0) i))
          Jac in
    let cs0 := map (fun x => x / fnat deg) (fxi (deg - 1)%nat) in
    let zeros := map (fun _ => 0) cs0 in
    let body := fun (cs : list tvec) (i : nat) =>
      let lin := jvp_i (removelast cs) i in
      let new := zipw (fun a b => (a + b) / fnat (i + deg + 1)) (fxi (deg + i)%nat) lin in
      set_nth (S i) new cs in
    tc ++ fold_left body (seq 0 deg) (cs0 :: repeat zeros deg).

  (* _apply_factorial_scaling *)
  Definition factorial_scaling (tc : list tvec) : list tvec :=
    map (fun n => map (fun x => x * ffact n) (nth n tc [])) (seq 0 (length tc)).

  Fixpoint iter {A : Type} (n : nat) (g : A -> A) (x : A) : A :=
    match n with O => x | S n' => iter n' g (g x) end.

  Definition doubling_model (v : vfield) (inits : list tvec) (t : F) (num_doublings : nat)
    : option (list tvec) :=
    match inits with
    | [u0] =>
      if Nat.eqb (vf_k v) 1 || Nat.eqb num_doublings 0
      then Some (factorial_scaling (iter num_doublings (double v t) [u0]))
      else None
    | _ => None                                 (* (u0,) = inits *)
    end.

  (* ------------------------------------------------ _allow_pytree_inits *)
  Inductive ptree (A : Type) : Type :=
  | PLeaf (xs : list A)                          (* scalar or 1-d array *)
  | PTuple (cs : list (ptree A))                 (* tuple / list *)
  | PDict (kvs : list (nat * ptree A)).          (* dict, keys in INSERTION order *)
  Arguments PLeaf {A}. Arguments PTuple {A}. Arguments PDict {A}.

  Fixpoint insert_kv {B : Type} (kv : nat * B) (l : list (nat * B)) : list (nat * B) :=
    match l with
    | [] => [kv]
    | kv' :: r => if Nat.leb (fst kv) (fst kv') then kv :: l else kv' :: insert_kv kv r
    end.
  Definition sort_kv {B : Type} (l : list (nat * B)) : list (nat * B) :=
    fold_right insert_kv [] l.

  (* jax.flatten_util.ravel_pytree: leaves in tree_flatten order (dict keys
     sorted, sequences in order), each leaf row-major *)
  Fixpoint ravel {A : Type} (t : ptree A) : list A :=
    match t with
    | PLeaf xs => xs
    | PTuple cs => flat_map ravel cs
    | PDict kvs => concat (map snd (sort_kv (map (fun kv => (fst kv, ravel (snd kv))) kvs)))
    end.

  (* A pytree state is described by the tree of its NATURAL coordinate indices
     0..d-1 (the order in which the user's function addresses them);
     perm = ravel shape: flat[s] = natural[perm[s]] *)
  Definition permute_vec (perm : list nat) (x : tvec) : tvec := map (fun i => vget x i) perm.
  Fixpoint index_of (i : nat) (perm : list nat) : nat :=
    match perm with
    | [] => O
    | j :: r => if Nat.eqb i j then O else S (index_of i r)
    end.
  Definition unpermute_vec (perm : list nat) (y : tvec) : tvec :=
    map (fun i => vget y (index_of i perm)) (seq 0 (length perm)).
  Definition permute_exps (k d : nat) (perm : list nat) (es : list nat) : list nat :=
    flat_map (fun j => map (fun i => nth (j * d + i) es 0%nat) perm) (seq 0 k)
    ++ [nth (k * d) es 0%nat].
  (* vf_wrapped(y) = ravel(vf(unravel(y))) *)
  Definition permute_vf (perm : list nat) (v : vfield) : vfield :=
    mkVF (vf_k v) (vf_d v)
         (map (fun i => map (fun m : @mono F =>
                               (fst m, permute_exps (vf_k v) (vf_d v) perm (snd m)))
                            (nth i (vf_f v) []))
              perm).

  Definition pytree_expand
             (alg : vfield -> list tvec -> F -> option (list tvec))
             (v : vfield) (shape : ptree nat) (inits : list tvec) (t : F)
    : option (list tvec) :=
    let perm := ravel shape in
    if Nat.eqb (vf_k v) 1 || Nat.eqb (vf_k v) 2
    then match alg (permute_vf perm v) (map (permute_vec perm) inits) t with
         | None => None
         | Some out => Some (map (unpermute_vec perm) out)
         end
    else None.
End Jet.

Arguments PLeaf {A}.
Arguments PTuple {A}.
Arguments PDict {A}.
