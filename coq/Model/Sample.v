(* Model of MarkovSequence.sample / MarkovSequence.from_grid
   (_probdiffeq/estimators_and_losses.py:139-149, 233-273) and of
   sample_flat / apply_flat of the three state-space models, per block
   (one generic block covers dense: N = (q+1) d, c = 1; isotropic: N = q+1,
   c = d; each of the d blocks of the block-diagonal model: N = q+1, c = 1).

     key, subkey = split(key);  x_init = marginal.sample_flat(subkey)
     scan over the conditionals (reverse = self.reverse), carry (x, key):
         predicted = cond.apply_flat(x)
         key, subkey = split(key);  x = predicted.sample_flat(subkey)

   sample_flat = mean + cholesky @ base with base ~ normal(shape):
     dense      base (N,)       -> z : N x 1
     isotropic  base (n, d)     -> z : n x d, one independent column per state
                                   dimension (since the repair 3219804; before, ONE
                                   draw of length n was broadcast to all d columns)
     blockdiag  base (d, n): row a is the draw of block a -> per block z : n x 1.
   The Cholesky factor of [predicted] (|to_observed| * noise.cholesky) is an INPUT of
   the model: any matrix L (the theorems assume L L^T = to Q to).  The base
   draws are inputs; the key splitting is modelled as the ORDER of the list of
   draws: first the draw of the initial (terminal if reverse) sample, then one
   draw per conditional in processing order (reverse time order if reverse).
   Definitions only. *)
From Coq Require Import List Arith Bool.
From PD Require Import Base.Field Base.Matrix Base.Solve Model.Gauss.
Import ListNotations.

Section Sample.
  Context {F : Type} `{FieldOps F}.
  Local Open Scope F_scope.
  Local Notation mat := (@mat F).
  Local Notation cond := (@cond F).
  Local Notation normal := (@normal F).

  (* Normal.sample_flat: mean + L z;  mean n x c, L n x n, z n x c *)
  Definition n_sample (n c : nat) (mean L z : mat) : mat :=
    madd n c mean (mmul n n c L z).

  (* body of the scan *)
  Definition sample_step (n c : nat) (K : cond) (L z x : mat) : mat :=
    n_sample n c (n_mean (c_apply n n c K x)) L z.

  Fixpoint zip3 {A B C : Type} (a : list A) (b : list B) (d : list C) : list (A * B * C) :=
    match a, b, d with
    | x :: a', y :: b', w :: d' => (x, y, w) :: zip3 a' b' d'
    | _, _, _ => []
    end.

  (* flow.scan in processing order; returns the stacked outputs *)
  Fixpoint scan_samples (n c : nat) (x : mat) (steps : list (cond * mat * mat)) : list mat :=
    match steps with
    | [] => []
    | (K, L, z) :: r =>
      let x' := sample_step n c K L z x in
      x' :: scan_samples n c x' r
    end.

  (* MarkovSequence.sample, shape = ().  conds, Ls in TIME order (as stored);
     draws in CONSUMPTION order.  Result in time order.
     None: the number of factors / draws does not fit the number of conditionals. *)
  Definition markov_sample (reverse : bool) (n c : nat) (m0 L0 : mat)
             (conds : list cond) (Ls : list mat) (draws : list mat) : option (list mat) :=
    match draws with
    | [] => None
    | z0 :: zs =>
      if Nat.eqb (length Ls) (length conds) && Nat.eqb (length zs) (length conds) then
        let x0 := n_sample n c m0 L0 z0 in
        if reverse
        then Some (rev (scan_samples n c x0 (zip3 (rev conds) (rev Ls) zs)) ++ [x0])
        else Some (x0 :: scan_samples n c x0 (zip3 conds Ls zs))
      else None
    end.

  (* MarkovSequence.evaluate_marginals for one block, time order *)
  Fixpoint back_marginals (n c : nat) (conds : list cond) (term : normal) : list normal :=
    match conds with
    | [] => [term]
    | K :: r =>
      let rest := back_marginals n c r term in
      c_marg n n c K (hd term rest) :: rest
    end.
  Fixpoint fwd_marginals_from (n c : nat) (conds : list cond) (rv : normal) : list normal :=
    match conds with
    | [] => []
    | K :: r => let rv' := c_marg n n c K rv in rv' :: fwd_marginals_from n c r rv'
    end.
  Definition seq_marginals (reverse : bool) (n c : nat) (conds : list cond) (init : normal)
    : list normal :=
    if reverse then back_marginals n c conds init
    else init :: fwd_marginals_from n c conds init.

  (* block-diagonal model / generic factorised form: independent blocks, each
     with its own draws (func.vmap over the block axis) *)
  Record sblock : Type := mkSB {
    sb_mean : mat; sb_L : mat; sb_conds : list cond; sb_Ls : list mat; sb_draws : list mat }.
  Definition f_markov_sample (reverse : bool) (n c : nat) (blocks : list sblock)
    : list (option (list mat)) :=
    map (fun b => markov_sample reverse n c (sb_mean b) (sb_L b) (sb_conds b) (sb_Ls b) (sb_draws b))
        blocks.

  (* ------------------------------------------------------------------
     The linear part written out as a matrix.  Plain gain of a conditional
     (preconditioner removed): G = diag(to) A diag(tl). *)
  Definition gain (n : nat) (K : cond) : mat :=
    mk n n (fun i j => vget (c_to K) i * mget (c_A K) i j * vget (c_tl K) j).
  (* conditional without offset *)
  Definition c_nooff (n c : nat) (K : cond) : cond :=
    mkC (c_A K) (mzero n c) (c_Q K) (c_tl K) (c_to K).

  (* sum_t W_t z_t  (n x c)  and  sum_t W_t V_t^T  (n x n) over zipped lists *)
  Fixpoint wsum (n c : nat) (ws zs : list mat) : mat :=
    match ws, zs with
    | W :: ws', z :: zs' => madd n c (mmul n n c W z) (wsum n c ws' zs')
    | _, _ => mzero n c
    end.
  Fixpoint cross_sum (n : nat) (ws vs : list mat) : mat :=
    match ws, vs with
    | W :: ws', V :: vs' => madd n n (mmul n n n W (mtr n n V)) (cross_sum n ws' vs')
    | _, _ => mzero n n
    end.

  (* reverse chain: block row k (time order) of the map from the draws IN TIME
     ORDER [z_0; ...; z_N] to the samples: W_{k,t} = G_k ... G_{t-1} L_t for
     t >= k, 0 for t < k *)
  Fixpoint rev_rows (n : nat) (steps : list (cond * mat)) (LN : mat) : list (list mat) :=
    match steps with
    | [] => [[LN]]
    | (K, L) :: r =>
      let rest := rev_rows n r LN in
      (L :: map (mmul n n n (gain n K)) (hd [] rest)) :: map (cons (mzero n n)) rest
    end.
  (* forward chain: block row k of the map from the draws in REVERSE time order
     [z_k; ...; z_0] to sample k (rows have length k+1) *)
  Fixpoint fwd_rows_from (n : nat) (row : list mat) (steps : list (cond * mat)) : list (list mat) :=
    match steps with
    | [] => []
    | (K, L) :: r =>
      let row' := L :: map (mmul n n n (gain n K)) row in
      row' :: fwd_rows_from n row' r
    end.

  (* G_1 (G_2 (... X)) *)
  Definition gains_apply (n : nat) (gs : list mat) (X : mat) : mat :=
    fold_right (fun G acc => mmul n n n G acc) X gs.
  (* ---- vocabulary of the statements in Props/C13.v ---- *)
  Fixpoint zipw {A B C : Type} (f : A -> B -> C) (l1 : list A) (l2 : list B) : list C :=
    match l1, l2 with
    | x :: r1, y :: r2 => f x y :: zipw f r1 r2
    | _, _ => []
    end.
  (* all draws zero *)
  Definition zeros_like (n c : nat) (zs : list mat) : list mat := map (fun _ => mzero n c) zs.
  (* draws seen by forward sample k, newest first: [z_k; ...; z_0] *)
  Fixpoint fwd_draws (zr : list mat) (zs : list mat) : list (list mat) :=
    match zs with
    | [] => []
    | z :: r => (z :: zr) :: fwd_draws (z :: zr) r
    end.
  (* unit draw: entry (l, b) is one, all others zero *)
  Definition unit_draw (n c l b : nat) : mat := mk n c (fun i a => delta i l * delta a b).
  (* column a of a draw / sample as an n x 1 matrix *)
  Definition mcol (n a : nat) (z : mat) : mat := mk n 1 (fun i _ => mget z i a).
End Sample.
