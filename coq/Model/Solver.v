(* Model of the probabilistic solvers: linearisation (TS0 / TS1), strategies
   (filter, fixed-interval smoother, fixed-point smoother), the three solvers
   (solver, solver_mle, solver_dynamic), solve_fixed_grid, userfriendly_output.
   Transcribes _probdiffeq/solvers.py, estimators_and_losses.py and the
   linearize() methods of the three state-space models.  A state-space model is
   a list of blocks (dense / isotropic: one block, block-diagonal: d blocks).
   Output scales are carried as SQUARES.  Definitions only. *)
From Coq Require Import List Arith Bool.
From PD Require Import Base.Field Base.Matrix Base.Solve Model.Gauss Model.Poly Model.Prior.
Import ListNotations.

Inductive fact : Type := Dense | Iso | BlockDiag.
Inductive strat : Type := Filter | FixedInterval | FixedPoint.
Inductive calib : Type := CalNone | CalMLE (correct : bool) | CalDynamic (relin : bool).
Inductive lin : Type := TS0 | TS1.

Section Solver.
  Context {F : Type} `{FieldOps F}.
  Local Open Scope F_scope.
  Local Notation mat := (@mat F).
  Local Notation vec := (@vec F).
  Local Notation normal := (@normal F).
  Local Notation cond := (@cond F).

  Variable inv : nat -> mat -> option mat.     (* certified inverse oracle *)

  (* ---------------------------------------------------------------- shapes *)
  Record shape : Type := mkShape { sh_kind : fact; sh_q : nat; sh_d : nat }.
  Definition sh_N (s : shape) : nat :=
    match sh_kind s with Dense => S (sh_q s) * sh_d s | _ => S (sh_q s) end.
  Definition sh_c (s : shape) : nat :=
    match sh_kind s with Iso => sh_d s | _ => 1 end.
  Definition sh_blocks (s : shape) : nat :=
    match sh_kind s with BlockDiag => sh_d s | _ => 1 end.
  (* rows of the ODE observation per block *)
  Definition sh_nout (s : shape) : nat :=
    match sh_kind s with Dense => sh_d s | _ => 1 end.

  Definition fnormal := list normal.
  Definition fcond := list cond.

  Definition nth_normal (l : fnormal) (a : nat) : normal := nth a l (mkN [] []).

  (* Taylor coefficient i, dimension a of a factorised mean *)
  Definition coeff (s : shape) (m : fnormal) (i a : nat) : F :=
    match sh_kind s with
    | Dense => mget (n_mean (nth_normal m 0)) (i * sh_d s + a) 0
    | Iso => mget (n_mean (nth_normal m 0)) i a
    | BlockDiag => mget (n_mean (nth_normal m a)) i 0
    end.

  Fixpoint omap2 {A B C : Type} (f : A -> B -> option C) (l1 : list A) (l2 : list B)
    : option (list C) :=
    match l1, l2 with
    | x :: xs, y :: ys =>
      match f x y, omap2 f xs ys with
      | Some z, Some zs => Some (z :: zs)
      | _, _ => None
      end
    | _, _ => Some []
    end.
  Fixpoint map2 {A B C : Type} (f : A -> B -> C) (l1 : list A) (l2 : list B) : list C :=
    match l1, l2 with
    | x :: xs, y :: ys => f x y :: map2 f xs ys
    | _, _ => []
    end.

  (* ------------------------------------------------------------- the ODE *)
  (* u^(k) = f(u, ..., u^(k-1), t): one polynomial per dimension over the
     variables x_{i,a} (index i*d + a, i < k) followed by t (index k*d) *)
  Record odeP : Type := mkOde { ode_k : nat; ode_f : list (@poly F) }.

  Definition ode_env (s : shape) (o : odeP) (m : fnormal) (t : F) : list F :=
    map (fun idx => coeff s m (idx / sh_d s) (idx mod sh_d s)) (seq 0 (ode_k o * sh_d s)) ++ [t].
  Definition f_eval (s : shape) (o : odeP) (m : fnormal) (t : F) (a : nat) : F :=
    eval_poly (ode_env s o m t) (nth a (ode_f o) []).
  (* d f_a / d x_{i,b} *)
  Definition df_eval (s : shape) (o : odeP) (m : fnormal) (t : F) (a i b : nat) : F :=
    if Nat.ltb i (ode_k o)
    then eval_poly (ode_env s o m t) (diff_poly (i * sh_d s + b) (nth a (ode_f o) []))
    else 0.
  (* residual g_a = x_{k,a} - f_a and its Jacobian d g_a / d x_{i,b} *)
  Definition g_eval s o m t a : F := coeff s m (ode_k o) a - f_eval s o m t a.
  Definition dg_eval s o m t a i b : F :=
    (if Nat.eqb i (ode_k o) && Nat.eqb a b then 1 else 0) - df_eval s o m t a i b.

  (* ---------------------------------------------------------- linearise *)
  Definition noise_cov (n : nat) (damp2 : F) : mat :=
    mk n n (fun i j => if Nat.eqb i j then damp2 else 0).

  Definition linearize (s : shape) (o : odeP) (l : lin) (damp2 : F)
             (m : fnormal) (t : F) : fcond :=
    let q := sh_q s in let d := sh_d s in let k := ode_k o in
    match sh_kind s, l with
    | Dense, TS0 =>
      [from_linop_and_noise (sh_N s) d
         (mk d (sh_N s) (fun r col => delta (k * d + r) col))
         (mkN (mk d 1 (fun r _ => - f_eval s o m t r)) (noise_cov d damp2))]
    | Dense, TS1 =>
      let J := mk d (sh_N s) (fun r col => dg_eval s o m t r (col / d) (col mod d)) in
      [from_linop_and_noise (sh_N s) d J
         (mkN (mk d 1 (fun r _ =>
                 g_eval s o m t r
                 - vsum (sh_N s) (fun col => mget J r col * coeff s m (col / d) (col mod d))))
              (noise_cov d damp2))]
    | Iso, TS0 =>
      [from_linop_and_noise (S q) 1
         (mk 1 (S q) (fun _ col => delta k col))
         (mkN (mk 1 d (fun _ a => - f_eval s o m t a)) (noise_cov 1 damp2))]
    | Iso, TS1 =>
      let Hr := mk 1 (S q) (fun _ i =>
                  vsum d (fun a => dg_eval s o m t a i a) / fnat d) in
      [from_linop_and_noise (S q) 1 Hr
         (mkN (mk 1 d (fun _ a =>
                 g_eval s o m t a - vsum (S q) (fun i => mget Hr 0 i * coeff s m i a)))
              (noise_cov 1 damp2))]
    | BlockDiag, TS0 =>
      map (fun a =>
        from_linop_and_noise (S q) 1
          (mk 1 (S q) (fun _ col => delta k col))
          (mkN (mk 1 1 (fun _ _ => - f_eval s o m t a)) (noise_cov 1 damp2)))
        (seq 0 d)
    | BlockDiag, TS1 =>
      map (fun a =>
        let Hr := mk 1 (S q) (fun _ i => dg_eval s o m t a i a) in
        from_linop_and_noise (S q) 1 Hr
          (mkN (mk 1 1 (fun _ _ =>
                  g_eval s o m t a - vsum (S q) (fun i => mget Hr 0 i * coeff s m i a)))
               (noise_cov 1 damp2)))
        (seq 0 d)
    end.

  (* ---------------------------------------------------------------- prior *)
  (* base2: squared base output scales, one per dimension (isotropic: one) *)
  Definition transition (s : shape) (base2 : vec) (dt : F) (out2 : list F) : fcond :=
    match sh_kind s with
    | Dense => [iwp_transition_dense (sh_q s) (sh_d s) base2 dt (nth 0 out2 1)]
    | Iso => [iwp_transition_1d (sh_q s) (sh_d s) dt (vget base2 0 * nth 0 out2 1)]
    | BlockDiag =>
      map (fun a => iwp_transition_1d (sh_q s) 1 dt (vget base2 a * nth a out2 1))
          (seq 0 (sh_d s))
    end.

  Definition ones (s : shape) : list F := map (fun _ => 1) (seq 0 (sh_blocks s)).

  (* ------------------------------------------------------------ strategies *)
  (* posterior: marginal + (smoothers) backward conditional *)
  Record post : Type := mkPost { p_marg : fnormal; p_cond : fcond }.

  Definition f_marg (s : shape) (K : fcond) (rv : fnormal) : fnormal :=
    map2 (fun k r => c_marg (sh_N s) (sh_N s) (sh_c s) k r) K rv.
  Definition f_apply_mean (s : shape) (K : fcond) (rv : fnormal) : fnormal :=
    map2 (fun k r => c_apply (sh_N s) (sh_N s) (sh_c s) k (n_mean r)) K rv.
  Definition f_revert (s : shape) (K : fcond) (rv : fnormal) : option (list (normal * cond)) :=
    omap2 (fun k r => c_revert inv (sh_N s) (sh_N s) (sh_c s) k r) K rv.
  Definition f_identity (s : shape) : fcond :=
    map (fun _ => identity_conditional (sh_N s) (sh_c s)) (seq 0 (sh_blocks s)).

  Definition init_posterior (s : shape) (u : fnormal) : post := mkPost u (f_identity s).

  Definition predict (s : shape) (st : strat) (p : post) (tr : fcond) : option post :=
    match st with
    | Filter => Some (mkPost (f_marg s tr (p_marg p)) (p_cond p))
    | FixedInterval =>
      match f_revert s tr (p_marg p) with
      | None => None
      | Some l => Some (mkPost (map fst l) (map snd l))
      end
    | FixedPoint =>
      match f_revert s tr (p_marg p) with
      | None => None
      | Some l =>
        Some (mkPost (map fst l)
                (map2 (fun bw0 bw => c_merge (sh_N s) (sh_N s) (sh_N s) (sh_c s) bw0 bw)
                      (p_cond p) (map snd l)))
      end
    end.

  Definition apply_updates (p : post) (upd : fnormal) : post := mkPost upd (p_cond p).

  (* correction: bayes_rule_tree with zero data on each block; also returns
     the observed marginals *)
  Definition correct (s : shape) (fx : fcond) (u : fnormal)
    : option (fnormal * fnormal) :=
    match omap2 (fun k r => bayes_rule inv (sh_N s) (sh_nout s) (sh_c s) k
                               (mzero (sh_nout s) (sh_c s)) r) fx u with
    | None => None
    | Some l => Some (map fst l, map snd l)
    end.

  (* squared whitened RMS of the zero datum under each observed marginal *)
  Definition rms2 (s : shape) (obs : fnormal) : option (list F) :=
    omap2 (fun r _ => whitened_rms2 inv (sh_nout s) (sh_c s) r (mzero (sh_nout s) (sh_c s)))
          obs obs.

  (* --------------------------------------------------------------- solvers *)
  Record sstate : Type := mkSt {
    st_t : F; st_u : fnormal; st_post : post; st_out2 : list F;
    st_run2 : list F;      (* MLE: running squared scale *)
    st_ndata : nat;        (* MLE: number of data *)
    st_nsteps : nat; st_fx : fcond }.

  Record config : Type := mkCfg {
    cf_shape : shape; cf_strat : strat; cf_calib : calib; cf_lin : lin;
    cf_ode : odeP; cf_base2 : vec; cf_damp2 : F }.

  Definition solver_init (cf : config) (t0 : F) (u0 : fnormal) : sstate :=
    let s := cf_shape cf in
    mkSt t0 u0 (init_posterior s u0) (ones s)
         (map (fun _ => 0) (seq 0 (sh_blocks s))) 0 0 [].

  (* running update  c^2 = n/(n+1) a^2 + 1/(n+1) b^2 *)
  Definition running_update (n : nat) (a2 b2 : F) : F :=
    fnat n / fnat (S n) * a2 + 1 / fnat (S n) * b2.

  Definition solver_step (cf : config) (st : sstate) (dt : F) : option sstate :=
    let s := cf_shape cf in
    let t' := st_t st + dt in
    match cf_calib cf with
    | CalNone =>
      let tr := transition s (cf_base2 cf) dt (ones s) in
      match predict s (cf_strat cf) (st_post st) tr with
      | None => None
      | Some pred =>
        let fx := linearize s (cf_ode cf) (cf_lin cf) (cf_damp2 cf) (p_marg pred) t' in
        match correct s fx (p_marg pred) with
        | None => None
        | Some (_, upd) =>
          Some (mkSt t' upd (apply_updates pred upd) (ones s) (st_run2 st)
                     (st_ndata st) (S (st_nsteps st)) fx)
        end
      end
    | CalMLE _ =>
      let tr := transition s (cf_base2 cf) dt (ones s) in
      match predict s (cf_strat cf) (st_post st) tr with
      | None => None
      | Some pred =>
        let fx := linearize s (cf_ode cf) (cf_lin cf) (cf_damp2 cf) (p_marg pred) t' in
        match correct s fx (p_marg pred) with
        | None => None
        | Some (obs, upd) =>
          match rms2 s obs with
          | None => None
          | Some new2 =>
            Some (mkSt t' upd (apply_updates pred upd) (st_out2 st)
                       (map2 (running_update (st_ndata st)) (st_run2 st) new2)
                       (S (st_ndata st)) (S (st_nsteps st)) fx)
          end
        end
      end
    | CalDynamic relin =>
      let tr1 := transition s (cf_base2 cf) dt (ones s) in
      let u1 := f_apply_mean s tr1 (st_u st) in
      let fx := linearize s (cf_ode cf) (cf_lin cf) (cf_damp2 cf) u1 t' in
      let observed := map2 (fun k r => c_marg (sh_N s) (sh_nout s) (sh_c s) k r) fx u1 in
      match rms2 s observed with
      | None => None
      | Some out2 =>
        let tr := transition s (cf_base2 cf) dt out2 in
        match predict s (cf_strat cf) (st_post st) tr with
        | None => None
        | Some pred =>
          let fx' := if relin
                     then linearize s (cf_ode cf) (cf_lin cf) (cf_damp2 cf) (p_marg pred) t'
                     else fx in
          match correct s fx' (p_marg pred) with
          | None => None
          | Some (_, upd) =>
            Some (mkSt t' upd (apply_updates pred upd) out2 (st_run2 st)
                       (st_ndata st) (S (st_nsteps st)) fx')
          end
        end
      end
    end.

  (* solve_fixed_grid: scan of solver.step over np.diff(grid) *)
  Fixpoint fixed_grid_states (cf : config) (st : sstate) (dts : list F)
    : option (list sstate) :=
    match dts with
    | [] => Some []
    | dt :: r =>
      match solver_step cf st dt with
      | None => None
      | Some st' =>
        match fixed_grid_states cf st' r with
        | None => None
        | Some l => Some (st' :: l)
        end
      end
    end.

  (* ---------------------------------------------------------- interpolation *)
  (* strategy.interpolate_fwd: (interpolated, step_from, interp_from) *)
  Definition strat_interpolate_fwd (s : shape) (st : strat) (p0 p1 : post)
             (tr_0t tr_t1 : fcond) : option (post * post * post) :=
    match st with
    | Filter =>
      match predict s Filter p0 tr_0t with
      | None => None
      | Some ip => Some (ip, p1, ip)
      end
    | FixedPoint =>
      match predict s FixedPoint p0 tr_0t with
      | None => None
      | Some ext_t =>
        let previous_new := mkPost (p_marg ext_t) (f_identity s) in
        match predict s FixedPoint previous_new tr_t1 with
        | None => None
        | Some ext_t1 =>
          Some (mkPost (p_marg ext_t) (p_cond ext_t),
                mkPost (p_marg p1) (p_cond ext_t1),
                previous_new)
        end
      end
    | FixedInterval =>
      match predict s FixedInterval p0 tr_0t with
      | None => None
      | Some sol_t =>
        match predict s FixedInterval sol_t tr_t1 with
        | None => None
        | Some ext_t1 =>
          Some (sol_t, mkPost (p_marg p1) (p_cond ext_t1), sol_t)
        end
      end
    end.

  (* ProbabilisticSolver.interpolate_fwd: the output scale of the right state
     is used for both sub-transitions *)
  Definition interpolate_fwd (cf : config) (st0 st1 : sstate) (t : F)
    : option (sstate * sstate * sstate) :=
    let s := cf_shape cf in
    let tr_0t := transition s (cf_base2 cf) (t - st_t st0) (st_out2 st1) in
    let tr_t1 := transition s (cf_base2 cf) (st_t st1 - t) (st_out2 st1) in
    match strat_interpolate_fwd s (cf_strat cf) (st_post st0) (st_post st1) tr_0t tr_t1 with
    | None => None
    | Some (ip, sf, ifr) =>
      Some (mkSt t (p_marg ip) ip (st_out2 st1) (st_run2 st1) (st_ndata st1) (st_nsteps st1) (st_fx st1),
            mkSt (st_t st1) (st_u st1) sf (st_out2 st1) (st_run2 st1) (st_ndata st1) (st_nsteps st1) (st_fx st1),
            mkSt t (st_u st0) ifr (st_out2 st0) (st_run2 st0) (st_ndata st0) (st_nsteps st0) (st_fx st0))
    end.

  (* ---- finalisation ---- *)
  Definition f_rescale (s : shape) (sc2 : list F) (rv : fnormal) : fnormal :=
    map2 (fun c r => n_rescale (sh_N s) c r) sc2 rv.
  Definition fc_rescale (s : shape) (sc2 : list F) (K : fcond) : fcond :=
    map2 (fun c k => c_rescale_noise (sh_N s) c k) sc2 K.

  (* MarkovSequence.evaluate_marginals (reverse): conds are ordered in time,
     init is the terminal marginal; returns marginals in time order including
     the terminal one *)
  Fixpoint backward_marginals (s : shape) (conds : list fcond) (term : fnormal)
    : list fnormal :=
    match conds with
    | [] => [term]
    | K :: r =>
      let rest := backward_marginals s r term in
      f_marg s K (hd term rest) :: rest
    end.

  (* the calibrated squared scale handed to strategy.finalize *)
  Definition final_scale2 (cf : config) (last : sstate) (nlast : nat) : list F :=
    match cf_calib cf with
    | CalMLE true => map (fun x => x / fnat nlast) (st_run2 last)
    | CalMLE false => st_run2 last
    | _ => ones (cf_shape cf)
    end.

  (* userfriendly_output: marginals at all grid points (u of the solution).
     st0: initial state, sts: states after each step, st1: "solution1"
     (for solve_fixed_grid st1 = last of sts). *)
  Definition finalize (cf : config) (st0 : sstate) (sts : list sstate) (st1 : sstate)
    : list fnormal :=
    let s := cf_shape cf in
    let nlast := st_nsteps (last sts st0) in
    let sc2 := final_scale2 cf st1 nlast in
    match cf_strat cf with
    | Filter =>
      map (fun st => f_rescale s sc2 (p_marg (st_post st))) (st0 :: sts)
    | _ =>
      let p1 := st_post st1 in
      let rv_at_t1 :=
          f_marg s (fc_rescale s sc2 (p_cond p1)) (f_rescale s sc2 (p_marg p1)) in
      backward_marginals s
        (map (fun st => fc_rescale s sc2 (p_cond (st_post st))) sts) rv_at_t1
    end.

  (* strategy.interpolate_fwd_at_t1: the state to resume / finalize from when a
     step ended at t1 precisely.  Smoothers reset the backward model to the
     identity (fixed-point always did; fixed-interval since the F3 repair). *)
  Definition interp_at_t1_step_from (s : shape) (st : strat) (p : post) : post :=
    match st with
    | Filter => p
    | _ => mkPost (p_marg p) (f_identity s)
    end.
  Definition state_at_t1 (cf : config) (st : sstate) : sstate :=
    mkSt (st_t st) (st_u st)
         (interp_at_t1_step_from (cf_shape cf) (cf_strat cf) (st_post st))
         (st_out2 st) (st_run2 st) (st_ndata st) (st_nsteps st) (st_fx st).

  (* solve_fixed_grid: solution1 = interpolate_fwd_at_t1(last state).step_from *)
  Definition solve_fixed_grid (cf : config) (t0 : F) (u0 : fnormal) (dts : list F)
    : option (list fnormal * list sstate) :=
    let st0 := solver_init cf t0 u0 in
    match fixed_grid_states cf st0 dts with
    | None => None
    | Some sts => Some (finalize cf st0 sts (state_at_t1 cf (last sts st0)), sts)
    end.

  (* solver.init with constraint_init = the solver's own ODE constraint: the
     initial marginal is conditioned on the linearised constraint at t0 (zero
     data); u and the posterior marginal are BOTH the updated marginal; scales,
     counters as in solver_init, except that solver_mle counts this update as datum 1.  (The implementation uses the SVD least squares
     here; with an invertible innovation matrix it coincides with bayes_rule.) *)
  Definition solver_init_constrained (cf : config) (t0 : F) (u0 : fnormal) : option sstate :=
    let s := cf_shape cf in
    let fx := linearize s (cf_ode cf) (cf_lin cf) (cf_damp2 cf) u0 t0 in
    match correct s fx u0 with
    | None => None
    | Some (obs, upd) =>
      match cf_calib cf with
      | CalMLE _ =>
        (* solver_mle counts the initial update as its first datum *)
        match rms2 s obs with
        | None => None
        | Some new2 =>
          Some (mkSt t0 upd (apply_updates (init_posterior s u0) upd) (ones s) new2 1 0 [])
        end
      | _ =>
        Some (mkSt t0 upd (apply_updates (init_posterior s u0) upd) (ones s)
                   (map (fun _ => 0) (seq 0 (sh_blocks s))) 0 0 [])
      end
    end.
End Solver.
