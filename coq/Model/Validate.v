(* C20 -- model of the accept/reject DECISION LOGIC of the input validators of
   probdiffeq on abstract inputs (shapes, dtypes, tree structure, object kind).

   Every validator is transcribed in the ORDER of the code and returns a
   [verdict]:
     Accept    no exception
     TypeErr   an explicit [raise TypeError] of the code
     ValueErr  an explicit [raise ValueError] of the code, or the ValueError JAX's
               tree_map raises for mismatching tree structures (also when the
               code wraps any exception into ValueError with try/except)
     OtherErr  an exception that is NOT raised by a validator but by the first
               primitive operation that chokes on the argument (AttributeError,
               KeyError, IndexError, AssertionError, TypeError of jnp.asarray ...);
               only "some exception is raised" is claimed for these.

   Sites (see /repo/probdiffeq/_probdiffeq):
     verify                 utilities.verify_taylor_coefficient_pytree
     flags_*                ssm_impl_{dense,isotropic,blockdiag}._tcoeffs_standard_deviation
     from_mean_and_std      {Dense,Isotropic,BlockDiag}Normal.from_mean_and_std
     base_scale             _process_base_scale / output-scale checks of prior_wiener_integrated_diffuse
     transition_check       output-scale shape checks in transition()
     prior_exp              DenseSSM.prior_exponential(_diffuse) order check
     gates                  isinstance checks (constraints, jet expansion, posterior)
     lift_*                 JetAbstract.lift range check, jet_lift isinstance check
     loss_std_check         estimators_and_losses std-container checks
     error_residual_check   solvers.error_residual_std shape check
     matfree_check          ssm_impl_matfree.blockdiag_cholesky_from_ensembles
     warns                  solve_adaptive_save_at / solve_fixed_grid suitability warnings *)
From Coq Require Import List Bool Arith ZArith Lia.
Import ListNotations.

Inductive dtype := DBool | DFloat | DInt.

Inductive aval :=
| AArr (shape : list nat) (dt : dtype)     (* jax array *)
| APyBool | APyFloat | APyInt              (* Python scalars *)
| AList (xs : list aval)
| ATuple (xs : list aval)
| ADict (kvs : list (nat * aval))          (* string keys "k<n>", listed in sorted order *)
| AFun                                     (* plain Python function *)
| AJetOde (order : nat)                    (* probdiffeq.ode(...) & co: JetOde *)
| AJetOdeAuto (order : nat)                (* JetOdeAutonomous *)
| AJetResidual (order : nat)
| ANone
| AMarkovSeq | ANormal.                    (* posterior objects (opaque here) *)

Inductive verdict := Accept | TypeErr | ValueErr | OtherErr.
Inductive fact := Dense | Isotropic | BlockDiag.

Inductive res (A : Type) := Ok (a : A) | Err (v : verdict).
Arguments Ok {A} a.
Arguments Err {A} v.

Definition dtype_eqb (a b : dtype) : bool :=
  match a, b with DBool, DBool | DFloat, DFloat | DInt, DInt => true | _, _ => false end.

Fixpoint shape_eqb (a b : list nat) : bool :=
  match a, b with
  | [], [] => true
  | x :: a', y :: b' => Nat.eqb x y && shape_eqb a' b'
  | _, _ => false
  end.

Definition oshape_eqb (a b : option (list nat)) : bool :=
  match a, b with Some x, Some y => shape_eqb x y | _, _ => false end.

(* ---------------------------------------------------------------- pytrees *)
(* JAX leaves: everything that is not a list / tuple / dict / None. *)
Definition is_leaf (v : aval) : bool :=
  match v with
  | AList _ | ATuple _ | ADict _ | ANone => false
  | _ => true
  end.

(* leaves that jnp can turn into numbers *)
Definition numeric_leaf (v : aval) : bool :=
  match v with AArr _ _ | APyBool | APyFloat | APyInt => true | _ => false end.

(* np.shape of a LEAF (np.shape of a function / object is (), like a scalar) *)
Definition leaf_shape (v : aval) : list nat :=
  match v with AArr s _ => s | _ => [] end.

Definition leaf_dtype (v : aval) : option dtype :=
  match v with
  | AArr _ dt => Some dt
  | APyBool => Some DBool | APyFloat => Some DFloat | APyInt => Some DInt
  | _ => None
  end.

(* tree_structure(a) == tree_structure(b) *)
Fixpoint struct_eqb (a b : aval) {struct a} : bool :=
  match a, b with
  | AList xs, AList ys | ATuple xs, ATuple ys =>
      (fix go (xs ys : list aval) : bool :=
         match xs, ys with
         | [], [] => true
         | x :: xs', y :: ys' => struct_eqb x y && go xs' ys'
         | _, _ => false
         end) xs ys
  | ADict xs, ADict ys =>
      (fix go (xs ys : list (nat * aval)) : bool :=
         match xs, ys with
         | [], [] => true
         | (k, x) :: xs', (k', y) :: ys' => Nat.eqb k k' && struct_eqb x y && go xs' ys'
         | _, _ => false
         end) xs ys
  | ANone, ANone => true
  | AList _, _ | ATuple _, _ | ADict _, _ | ANone, _ => false
  | _, _ => is_leaf b
  end.

(* Python equality of tree_map(np.shape, a) and tree_map(np.shape, b):
   a leaf maps to its shape TUPLE, so the shape () of a scalar leaf equals the
   image () of an empty tuple node. *)
Fixpoint shapetree_eqb (a b : aval) {struct a} : bool :=
  match a, b with
  | AList xs, AList ys =>
      (fix go (xs ys : list aval) : bool :=
         match xs, ys with
         | [], [] => true
         | x :: xs', y :: ys' => shapetree_eqb x y && go xs' ys'
         | _, _ => false
         end) xs ys
  | ATuple xs, ATuple ys =>
      (fix go (xs ys : list aval) : bool :=
         match xs, ys with
         | [], [] => true
         | x :: xs', y :: ys' => shapetree_eqb x y && go xs' ys'
         | _, _ => false
         end) xs ys
  | ADict xs, ADict ys =>
      (fix go (xs ys : list (nat * aval)) : bool :=
         match xs, ys with
         | [], [] => true
         | (k, x) :: xs', (k', y) :: ys' => Nat.eqb k k' && shapetree_eqb x y && go xs' ys'
         | _, _ => false
         end) xs ys
  | ANone, ANone => true
  | ATuple [], _ => is_leaf b && shape_eqb (leaf_shape b) []
  | AList _, _ | ATuple _, _ | ADict _, _ | ANone, _ => false
  | _, ATuple [] => shape_eqb (leaf_shape a) []
  | _, _ => is_leaf b && shape_eqb (leaf_shape a) (leaf_shape b)
  end.

(* np.shape / np.asarray(..).shape of an arbitrary value (nested sequences are
   array-likes; a ragged sequence raises). *)
Fixpoint np_shape (v : aval) : option (list nat) :=
  match v with
  | AArr s _ => Some s
  | AList xs | ATuple xs =>
      match xs with
      | [] => Some [0]
      | x :: r =>
          match np_shape x with
          | Some s => if forallb (fun y => oshape_eqb (np_shape y) (Some s)) r
                      then Some (length xs :: s) else None
          | None => None
          end
      end
  | _ => Some []
  end.

(* can jnp.asarray turn the value into a numeric array? *)
Fixpoint array_like (v : aval) : bool :=
  match v with
  | AArr _ _ | APyBool | APyFloat | APyInt => true
  | AList xs | ATuple xs => forallb array_like xs
  | _ => false
  end.

Definition prod_shape (s : list nat) : nat := fold_right Nat.mul 1 s.

(* number of scalar entries of all numeric leaves (size of ravel_pytree) *)
Fixpoint tree_size (v : aval) : nat :=
  match v with
  | AArr s _ => prod_shape s
  | APyBool | APyFloat | APyInt => 1
  | AList xs | ATuple xs => fold_right (fun x acc => tree_size x + acc) 0 xs
  | ADict kvs => fold_right (fun kv acc => match kv with (_, x) => tree_size x + acc end) 0 kvs
  | _ => 0
  end.

(* all leaves numeric: ravel_pytree / zeros_like succeed *)
Fixpoint all_numeric (v : aval) : bool :=
  match v with
  | AList xs | ATuple xs => forallb all_numeric xs
  | ADict kvs => forallb (fun kv => match kv with (_, x) => all_numeric x end) kvs
  | ANone => true
  | _ => numeric_leaf v
  end.

(* tree_map(zeros_like / asarray ...): same structure, leaves become float arrays *)
Fixpoint float_like (v : aval) : aval :=
  match v with
  | AList xs => AList (map float_like xs)
  | ATuple xs => ATuple (map float_like xs)
  | ADict kvs => ADict (map (fun kv => match kv with (k, x) => (k, float_like x) end) kvs)
  | ANone => ANone
  | _ => AArr (leaf_shape v) DFloat
  end.

(* x[0] *)
Definition first_item (x : aval) : option aval :=
  match x with
  | AList (c :: _) | ATuple (c :: _) => Some c
  | AArr (S _ :: s) dt => Some (AArr s dt)
  | _ => None      (* dict: KeyError; empty: IndexError; scalars / functions: TypeError *)
  end.

(* len(x) *)
Definition py_len (x : aval) : option nat :=
  match x with
  | AList xs | ATuple xs => Some (length xs)
  | ADict kvs => Some (length kvs)
  | AArr (n :: _) _ => Some n
  | _ => None
  end.

(* tree_leaves(x, is_leaf = lambda s: structure(s) == structure(x[0])) *)
Fixpoint d1_leaves (x0 v : aval) : list aval :=
  if struct_eqb v x0 then [v] else
  match v with
  | AList xs | ATuple xs => flat_map (d1_leaves x0) xs
  | ADict kvs => flat_map (fun kv => match kv with (_, x) => d1_leaves x0 x end) kvs
  | ANone => []
  | _ => [v]
  end.

(* tree_unflatten(depth-one structure, [zeros(()) ...]) *)
Fixpoint d1_template (x0 v : aval) : aval :=
  if struct_eqb v x0 then AArr [] DFloat else
  match v with
  | AList xs => AList (map (d1_template x0) xs)
  | ATuple xs => ATuple (map (d1_template x0) xs)
  | ADict kvs => ADict (map (fun kv => match kv with (k, x) => (k, d1_template x0 x) end) kvs)
  | ANone => ANone
  | _ => AArr [] DFloat
  end.

(* jax.tree.map(f, A, B): A is a tree PREFIX of B.  Returns the (leaf of A,
   subtree of B) pairs in order, or None when JAX raises its ValueError for a
   structure mismatch (checked before f is called on any leaf). *)
Fixpoint prefix_pairs (A B : aval) {struct A} : option (list (aval * aval)) :=
  match A with
  | AList xs =>
      match B with
      | AList ys =>
          (fix go (xs ys : list aval) : option (list (aval * aval)) :=
             match xs, ys with
             | [], [] => Some []
             | x :: xs', y :: ys' =>
                 match prefix_pairs x y, go xs' ys' with
                 | Some p, Some q => Some (p ++ q)
                 | _, _ => None
                 end
             | _, _ => None
             end) xs ys
      | _ => None
      end
  | ATuple xs =>
      match B with
      | ATuple ys =>
          (fix go (xs ys : list aval) : option (list (aval * aval)) :=
             match xs, ys with
             | [], [] => Some []
             | x :: xs', y :: ys' =>
                 match prefix_pairs x y, go xs' ys' with
                 | Some p, Some q => Some (p ++ q)
                 | _, _ => None
                 end
             | _, _ => None
             end) xs ys
      | _ => None
      end
  | ADict xs =>
      match B with
      | ADict ys =>
          (fix go (xs ys : list (nat * aval)) : option (list (aval * aval)) :=
             match xs, ys with
             | [], [] => Some []
             | (k, x) :: xs', (k', y) :: ys' =>
                 if Nat.eqb k k' then
                   match prefix_pairs x y, go xs' ys' with
                   | Some p, Some q => Some (p ++ q)
                   | _, _ => None
                   end
                 else None
             | _, _ => None
             end) xs ys
      | _ => None
      end
  | ANone => match B with ANone => Some [] | _ => None end
  | _ => Some [(A, B)]
  end.

Fixpoint mapM {A B : Type} (f : A -> res B) (l : list A) : res (list B) :=
  match l with
  | [] => Ok []
  | x :: r => match f x with
              | Err e => Err e
              | Ok y => match mapM f r with Err e => Err e | Ok ys => Ok (y :: ys) end
              end
  end.

(* ------------------------------------------ verify_taylor_coefficient_pytree *)
Definition verify (x : aval) : verdict :=
  match x with
  | AArr _ _ => TypeErr                              (* "Mean must be a pytree, not an array." *)
  | AList xs | ATuple xs =>
      match xs with
      | [] => ValueErr                               (* x_list[0]: IndexError inside the try *)
      | x0 :: _ => if forallb (fun xi => shapetree_eqb xi x0) xs then Accept else ValueErr
      end
  | ADict kvs =>                                     (* [*x] iterates the KEYS; np.shape(str) = () *)
      match kvs with [] => ValueErr | _ => Accept end
  | _ => ValueErr                                    (* [*x] fails inside the try *)
  end.

(* --------------------------------------------- _tcoeffs_standard_deviation *)
Definition is_bool_dtype (d : dtype) : bool := dtype_eqb d DBool.

(* dense and blockdiag share the code *)
Definition flags_tree_dense (ie mean : aval) : verdict :=
  match prefix_pairs ie mean with
  | None => ValueErr                                 (* tree_map structure mismatch *)
  | Some ps =>
      match mapM (fun ab : aval * aval =>
                    let (a, b) := ab in
                    match np_shape b with
                    | Some sb => Ok (shape_eqb (leaf_shape a) [] || shape_eqb (leaf_shape a) sb)
                    | None => Err OtherErr
                    end) ps with
      | Err e => e
      | Ok bs =>
          if negb (forallb (fun b => b) bs) then ValueErr   (* "Input 'is_exact' has the wrong PyTree structure." *)
          else
            (* a * np.ones(b.shape, dtype=bool) *)
            match mapM (fun ab : aval * aval =>
                          let (a, b) := ab in
                          match b, leaf_dtype a with
                          | AArr _ _, Some d => Ok d
                          | _, _ => Err OtherErr
                          end) ps with
            | Err e => e
            | Ok ds => if forallb is_bool_dtype ds then Accept else TypeErr  (* "Boolean entries expected" *)
            end
      end
  end.

Definition std_dense (mean ie : aval) : res aval :=
  match ie with
  | APyBool => if all_numeric mean then Ok (float_like mean) else Err OtherErr
  | _ => match flags_tree_dense ie mean with
         | Accept => Ok (float_like mean)
         | e => Err e
         end
  end.

Definition flags_tree_iso (ie template : aval) : verdict :=
  match prefix_pairs ie template with
  | None => ValueErr
  | Some ps =>
      match mapM (fun ab : aval * aval =>
                    let (a, b) := ab in
                    match np_shape b with
                    | Some sb => Ok (shape_eqb (leaf_shape a) sb)
                    | None => Err OtherErr
                    end) ps with
      | Err e => e
      | Ok bs =>
          if negb (forallb (fun b => b) bs) then ValueErr
          else
            match mapM (fun ab : aval * aval =>
                          match leaf_dtype (fst ab) with Some d => Ok d | None => Err OtherErr end) ps with
            | Err e => e
            | Ok ds => if forallb is_bool_dtype ds then Accept else TypeErr
            end
      end
  end.

Definition std_iso (mean ie : aval) : res aval :=
  match first_item mean with
  | None => Err OtherErr                             (* tree[0] in tree_flatten_depth_one *)
  | Some x0 =>
      let template := d1_template x0 mean in
      match ie with
      | APyBool => Ok template
      | _ => match flags_tree_iso ie template with
             | Accept => Ok (float_like ie)
             | e => Err e
             end
      end
  end.

Definition tcoeffs_std (f : fact) (mean ie : aval) : res aval :=
  match f with
  | Isotropic => std_iso mean ie
  | _ => std_dense mean ie
  end.

(* --------------------------------------------------------- from_mean_and_std *)
Definition all_sizes_equal (l : list aval) : bool :=
  match l with
  | [] => true
  | x :: r => forallb (fun y => Nat.eqb (tree_size y) (tree_size x)) r
  end.

(* np.stack of ravelled depth-one leaves *)
Definition d1_stack_ok (x : aval) : bool :=
  match first_item x with
  | None => false
  | Some x0 => let ls := d1_leaves x0 x in
               forallb all_numeric ls && all_sizes_equal ls && negb (Nat.eqb (length ls) 0)
  end.

Definition d1_count (x : aval) : nat :=
  match first_item x with None => 0 | Some x0 => length (d1_leaves x0 x) end.

(* num_coeffs = len(mean) *)
Definition num_coeffs (x : aval) : nat :=
  match py_len x with Some n => n | None => 0 end.

Definition from_mean_and_std (f : fact) (mean std : aval) : verdict :=
  match verify mean with
  | Accept =>
      match verify std with
      | Accept =>
          match f with
          | Dense =>
              if all_numeric mean && all_numeric std && Nat.eqb (tree_size mean) (tree_size std)
              then Accept else OtherErr             (* ravel_pytree / assert mean_flat.shape == std_flat.shape *)
          | BlockDiag =>
              if d1_stack_ok mean && d1_stack_ok std
                 && (Nat.eqb (d1_count std) (num_coeffs mean) || Nat.eqb (d1_count std) 1
                     || Nat.eqb (num_coeffs mean) 1)
              then Accept else OtherErr             (* stack / broadcasting of (d',n',1) * (1,n,n), n = len(mean) *)
          | Isotropic =>
              if d1_stack_ok mean then
                match first_item std with
                | None => OtherErr
                | Some s0 =>
                    let ls := d1_leaves s0 std in
                    match ls with
                    | [] => OtherErr
                    | l0 :: _ =>
                        if forallb (fun l => numeric_leaf l && shape_eqb (leaf_shape l) (leaf_shape l0)) ls
                        then if shape_eqb (length ls :: leaf_shape l0) [num_coeffs mean]
                             then Accept else ValueErr   (* "'std' must have the same pytree structure as mean, but each leaf must be a scalar" *)
                        else OtherErr                    (* np.stack of non-arrays / different shapes *)
                    end
                end
              else OtherErr
          end
      | e => e
      end
  | e => e
  end.

(* ------------------------------------------------------------- base scales *)
Definition pairs_shapes_equal (ps : list (aval * aval)) : bool :=
  forallb (fun ab : aval * aval => shape_eqb (leaf_shape (fst ab)) (leaf_shape (snd ab))) ps.

Definition base_scale_dense (mean sc : aval) : verdict :=
  match first_item mean with
  | None => OtherErr
  | Some c0 =>
      if negb (all_numeric c0) then OtherErr else     (* ravel_pytree(tcoeffs_mean[0]) *)
      match sc with
      | ANone => Accept
      | _ =>
          if negb (all_numeric sc) then OtherErr else (* tree_map(np.asarray, base_scale) *)
          if negb (struct_eqb sc c0) then TypeErr else  (* "unexpected PyTree structure" *)
          match prefix_pairs sc (float_like c0) with
          | None => ValueErr
          | Some ps => if pairs_shapes_equal ps then Accept
                       else if is_leaf sc then ValueErr  (* "The base-scale has the wrong shape." *)
                       else OtherErr                     (* the message evaluates base_scale.shape on a container *)
          end
      end
  end.

Definition base_scale_blockdiag (mean sc : aval) : verdict :=
  match first_item mean with
  | None => OtherErr
  | Some c0 =>
      if negb (all_numeric c0) then OtherErr else
      match sc with
      | ANone => Accept
      | _ =>
          if negb (struct_eqb sc c0) then TypeErr else
          if negb (all_numeric sc) then OtherErr else
          match prefix_pairs sc (float_like c0) with
          | None => ValueErr
          | Some ps => if pairs_shapes_equal ps then Accept
                       else if is_leaf sc then ValueErr else OtherErr
          end
      end
  end.

Definition base_scale_iso (mean sc : aval) : verdict :=
  match sc with
  | ANone => match first_item mean with
             | Some c0 => if all_numeric c0 then Accept else OtherErr
             | None => OtherErr
             end
  | _ =>
      if negb (is_leaf sc) then TypeErr else          (* structure != structure(1.0) *)
      if negb (numeric_leaf sc) then OtherErr else    (* np.asarray *)
      if negb (shape_eqb (leaf_shape sc) []) then ValueErr else
      match first_item mean with
      | Some c0 => if all_numeric c0 then Accept else OtherErr
      | None => OtherErr
      end
  end.

Definition base_scale (f : fact) (mean sc : aval) : verdict :=
  match f with
  | Dense => base_scale_dense mean sc
  | BlockDiag => base_scale_blockdiag mean sc
  | Isotropic => base_scale_iso mean sc
  end.

(* ------------------------------------------------------------------ priors *)
Definition prior_iwp_diffuse (f : fact) (mean std sc : aval) : verdict :=
  match from_mean_and_std f mean std with
  | Accept => base_scale f mean sc
  | e => e
  end.

Definition prior_iwp (f : fact) (mean ie sc : aval) : verdict :=
  match tcoeffs_std f mean ie with
  | Err e => e
  | Ok std => prior_iwp_diffuse f mean std sc
  end.

Definition ode_order (o : aval) : option nat :=
  match o with
  | AJetOde k | AJetOdeAuto k | AJetResidual k => Some k
  | _ => None
  end.

(* is some leaf floating point?  (jax.jacfwd differentiates real inputs only) *)
Fixpoint has_float (v : aval) : bool :=
  match v with
  | AArr _ DFloat | APyFloat => true
  | AList xs | ATuple xs => existsb has_float xs
  | ADict kvs => existsb (fun kv => match kv with (_, x) => has_float x end) kvs
  | _ => false
  end.

(* the drift Jacobian of the n coefficients (d entries each) must fit the bottom block *)
Definition drift_block_ok (mean : aval) : bool :=
  match first_item mean with
  | Some c0 => (Nat.eqb (tree_size c0) 0       (* d = 0: A[-0:, :] is an empty (0,0) block, nothing is checked *)
                || Nat.eqb (tree_size mean) (num_coeffs mean * tree_size c0)) && has_float mean
  | None => false
  end.

(* prior_exponential: implemented for the dense factorisation only *)
Definition prior_exp (f : fact) (ode mean ie sc : aval) : verdict :=
  match f with
  | Dense =>
      match tcoeffs_std Dense mean ie with
      | Err e => e
      | Ok std =>
          match ode_order ode, py_len mean with
          | Some k, Some n =>
              if negb (Nat.eqb k n) then TypeErr      (* "The exponential prior does not match the Taylor coefficients" *)
              else
                match prior_iwp_diffuse Dense mean std sc with
                | Accept => match ode with
                            | AJetOdeAuto _ => if drift_block_ok mean then Accept else OtherErr  (* jacfwd / A.at[-d:, :].set *)
                            | _ => OtherErr                                               (* ode.autonomous *)
                            end
                | e => e
                end
          | _, _ => OtherErr                          (* ode.num_tcoeffs_in_args / len() *)
          end
      end
  | _ => OtherErr                                     (* NotImplementedError *)
  end.

(* prior_ornstein_uhlenbeck_integrated / prior_matern build the ODE of matching order themselves *)
Definition prior_exp_builtin (f : fact) (mean ie sc : aval) : verdict :=
  match py_len mean with
  | None => OtherErr
  | Some n => prior_exp f (AJetOdeAuto n) mean ie sc
  end.

(* prior_matern does arithmetic on the coefficients themselves: they must be arrays / scalars *)
Definition prior_matern (f : fact) (mean ie sc : aval) : verdict :=
  match prior_exp_builtin f mean ie sc with
  | Accept => match mean with
              | AList xs | ATuple xs => if forallb numeric_leaf xs then Accept else OtherErr
              | _ => OtherErr
              end
  | e => e
  end.

(* ------------------------------------------------- transition(output_scale) *)
Definition transition_check (expected : list nat) (cal : aval) : verdict :=
  if negb (array_like cal) then OtherErr else        (* np.asarray(output_scale) *)
  match np_shape cal with
  | None => OtherErr
  | Some s => if shape_eqb s expected then Accept else ValueErr
  end.

Definition cal_shape (f : fact) (mean : aval) : list nat :=
  match f with
  | BlockDiag => match first_item mean with Some c0 => [tree_size c0] | None => [0] end
  | _ => []
  end.

(* ------------------------------------------------------------------- gates *)
Definition gate_jetode (o : aval) : verdict :=
  match o with AJetOde _ => Accept | _ => TypeErr end.
Definition gate_jetresidual (o : aval) : verdict :=
  match o with AJetResidual _ => Accept | _ => TypeErr end.
Definition gate_posterior (o : aval) : verdict :=
  match o with AMarkovSeq => Accept | _ => TypeErr end.

(* jetexpand_ode_doubling_unroll has no gate ("TODO: error on the wrong type") *)
Definition jetexpand_doubling (o : aval) : verdict :=
  match o with AJetOde 1 => Accept | _ => OtherErr end.

(* ------------------------------------------------------------------- lifts *)
(* lift_by: Some z = a Python int, None = any other object *)
Definition lift_construct (lift_by : option Z) : verdict :=
  match lift_by with Some _ => Accept | None => TypeErr end.

(* JetAbstract.lift, first call with n jet coordinates, residual of order k *)
Definition lift_residual_use (k n : nat) (lift_by : Z) : verdict :=
  if (lift_by <? 0)%Z || (Z.of_nat n - Z.of_nat k <? lift_by)%Z then ValueErr else Accept.

(* JetOde.jet_lift + constraint_ode_ts1: residual_from_ode indexes the output coefficients first *)
Definition lift_ode_use (k n : nat) (lift_by : Z) : verdict :=
  if (lift_by <? 0)%Z then ValueErr
  else if (Z.of_nat n <? Z.of_nat k + lift_by + 1)%Z then OtherErr   (* IndexError *)
  else Accept.

(* ------------------------------------------------------------------ losses *)
Definition loss_std_check (std expected : aval) : verdict :=
  if negb (all_numeric std) then OtherErr else       (* tree_map(np.asarray, std) *)
  match prefix_pairs std expected with
  | None => ValueErr                                 (* try/except -> ValueError *)
  | Some ps =>
      if forallb (fun ab : aval * aval => is_leaf (snd ab)) ps      (* b.shape on a subtree: AttributeError -> ValueError *)
         && pairs_shapes_equal ps
      then Accept else ValueErr
  end.

Definition loss_timeseries_check (posterior std expected : aval) : verdict :=
  match gate_posterior posterior with
  | Accept => loss_std_check std expected
  | e => e
  end.

(* ---------------------------------------- error_residual_std: first estimate *)
(* m = entries of the constraint output, d = entries of the state *)
Definition error_residual_check (f : fact) (m d : nat) : verdict :=
  match f with
  | Dense => if Nat.eqb m 1 || Nat.eqb m d then Accept else ValueErr   (* error.shape not in [(1,), reference.shape] *)
  | _ => if Nat.eqb m d then Accept else ValueErr   (* jacobians: 'fun' must map (n,d) to (m,d) *)
  end.

(* ------------------------------------------------------------ matfree ensembles *)
Definition matfree_check (S n : nat) : verdict :=
  if Nat.ltb S n then ValueErr else Accept.

(* ------------------------------------------------------- suitability warnings *)
Inductive strategy := SFilter | SFixedInterval | SFixedPoint.
Inductive routine := RSaveAt (warn : bool) | RTerminalValues | RFixedGrid | RSaveEveryStep.

Definition suitable_save_at (s : strategy) : bool :=
  match s with SFixedInterval => false | _ => true end.
Definition suitable_save_every_step (s : strategy) : bool :=
  match s with SFixedPoint => false | _ => true end.

Definition warns (s : strategy) (r : routine) : bool :=
  match r with
  | RSaveAt w => negb (suitable_save_at s) && w
  | RTerminalValues => false
  | RFixedGrid | RSaveEveryStep => negb (suitable_save_every_step s)
  end.
