(* Model of the jet-lifting and constraint constructors of
   probdiffeq/_probdiffeq/problems.py:

     lift_accepts / lift     JetAbstract.lift: range check 0 <= lift_by <= len(coords) - k,
                             tcoeffs = coords[:k + lift_by], reordering into primals / series
                             (Model/Jet.v args_aj, including the (t, 1, 0, ...) time series),
                             direct call when there are no series, else jax.experimental.jet
                             with is_tcoeff=False: DERIVATIVES in, DERIVATIVES out
     ode_jet_lift(_max)      JetOde.jet_lift / jet_lift_max: num_tcoeffs_in_args and
                             tcoeff_indices_output bookkeeping
     res_jet_lift(_max)      JetResidual.jet_lift / jet_lift_max
     residual_from_ode_jf    residual_from_ode of an (unlifted) ODE, as a jet function that can
                             be lifted again
     residual_from_lifted    residual_from_ode of a LIFTED ODE (evaluation only)
     stack_k / stack_eval    residual_from_stack

   A jet function is a program that can be run in any ring of truncated power
   series (jf_body N env: env = the k*d state series followed by the time
   series, all of length N); plain evaluation is the run at N = 1.  Polynomial
   programs (jf_of_polys) run by series composition (Base/Series.v).
   Python exceptions are [None].  Definitions only. *)
From Coq Require Import List Arith Bool ZArith.
From PD Require Import Base.Field Base.Matrix Model.Poly Base.Series Spec.ODESeries Model.Jet.
Import ListNotations.

Section JetLift.
  Context {F : Type} `{FieldOps F}.
  Local Open Scope F_scope.
  Local Notation poly := (@poly F).
  Local Notation tvec := (list F).
  Local Notation series := (@series F).

  Record jetfun : Type := mkJF {
    jf_k : nat;                                   (* num_tcoeffs_in_args *)
    jf_d : nat;                                   (* entries per jet coordinate *)
    jf_body : nat -> list series -> list series   (* N, env |-> flattened outputs *)
  }.

  Definition jf_of_polys (k d : nat) (ps : list poly) : jetfun :=
    mkJF k d (fun N env => map (scompose N env) ps).

  (* the environment of a direct call fun(jet_coords=pu, t=pt) *)
  Definition plain_env (d : nat) (pu : list tvec) (pt : F) : list series :=
    flat_map (fun p => map (fun b => [vget p b]) (seq 0 d)) pu ++ [[pt]].
  Definition run_plain (jf : jetfun) (pu : list tvec) (pt : F) : list F :=
    map (fun s => sget s 0) (jf_body jf 1 (plain_env (jf_d jf) pu pt)).

  (* fun(jet_coords=coords, t=t): the public wrappers unpack exactly k coordinates *)
  Definition jf_eval (jf : jetfun) (coords : list tvec) (t : F) : option (list F) :=
    if Nat.eqb (length coords) (jf_k jf) then Some (run_plain jf coords t) else None.

  (* jax.experimental.jet(jet_call, ps, ss, factorial_scaled=True): all series
     must have the same length n; output orders 0..n as derivative vectors *)
  Definition run_jet (jf : jetfun) (pu : list tvec) (pt : F) (su : list (list tvec)) (st : list F)
    : option (list (list F)) :=
    let n := length st in
    if forallb (fun s => Nat.eqb (length s) n) su && Nat.eqb (length pu) (length su)
    then
      let outs := map to_deriv (jf_body jf (S n) (jet_env (jf_d jf) pu pt su st)) in
      Some (map (fun l => map (fun o => sget o l) outs) (seq 0 (S n)))
    else None.

  (* ------------------------------------------------------ JetAbstract.lift *)
  Definition lift_accepts (k ncoords : nat) (lift_by : Z) : bool :=
    (0 <=? lift_by)%Z && (lift_by <=? Z.of_nat ncoords - Z.of_nat k)%Z.

  Definition lift (jf : jetfun) (lift_by : Z) (coords : list tvec) (t : F)
    : option (list (list F)) :=
    if lift_accepts (jf_k jf) (length coords) lift_by
    then
      match jf_k jf with
      | O => None                                  (* series_u[0]: IndexError *)
      | S _ =>
        let order := (jf_k jf + Z.to_nat lift_by)%nat in
        let tcoeffs := firstn order coords in
        let '((pu, pt), (su, st)) := args_aj tcoeffs (jf_k jf) t in
        match nth 0 su [] with
        | [] => Some [run_plain jf pu pt]          (* no series: call the function directly *)
        | _ :: _ => run_jet jf pu pt su st
        end
      end
    else None.                                     (* ValueError *)

  (* ------------------------------------- JetOde.jet_lift / jet_lift_max *)
  (* what the lifted object advertises: (num_tcoeffs_in_args, tcoeff_indices_output) *)
  Definition ode_lift_signature (k idx : nat) (lift_by : Z) : Z * list nat :=
    ((Z.of_nat k + lift_by)%Z,
     map (fun l => (idx + l)%nat) (seq 0 (Z.to_nat (lift_by + 1)))).
  Definition ode_lift_max_by (idx : nat) (num_tcoeffs : Z) : Z :=
    (num_tcoeffs - Z.of_nat idx - 1)%Z.
  (* ode.jet_lift(lift_by=m).vector_field(jet_coords=coords, t=t) *)
  Definition ode_jet_lift (jf : jetfun) (lift_by : Z) := lift jf lift_by.
  Definition ode_jet_lift_max (jf : jetfun) (idx : nat) (num_tcoeffs : Z) :=
    lift jf (ode_lift_max_by idx num_tcoeffs).

  (* JetResidual.jet_lift / jet_lift_max *)
  Definition res_lift_signature (k : nat) (lift_by : Z) : Z := (Z.of_nat k + lift_by)%Z.
  Definition res_lift_max_by (k : nat) (num_tcoeffs : Z) : Z := (num_tcoeffs - Z.of_nat k)%Z.
  Definition res_jet_lift (jf : jetfun) (lift_by : Z) := lift jf lift_by.
  Definition res_jet_lift_max (jf : jetfun) (num_tcoeffs : Z) :=
    lift jf (res_lift_max_by (jf_k jf) num_tcoeffs).

  (* -------------------------------------------------- residual_from_ode *)
  (* of an unlifted ODE u^(k) = f: the jet function (u, .., u^(k), t) |-> u^(k) - f(u, .., u^(k-1), t) *)
  Definition residual_from_ode_jf (o : jetfun) : jetfun :=
    let k := jf_k o in let d := jf_d o in
    mkJF (S k) d
         (fun N env =>
            zipw (ssub N) (firstn d (skipn (k * d) env))
                 (jf_body o N (firstn (k * d) env ++ skipn (S k * d) env))).

  Definition vsub_ (a b : list F) : list F := zipw (fun x y => x - y) a b.

  (* of a LIFTED ODE (tcoeff_indices_output = out): [coords[i] for i in out] - vf(coords[:k'], t) *)
  Definition residual_from_lifted (o : jetfun) (lift_by : Z) (coords : list tvec) (t : F)
    : option (list (list F)) :=
    let '(k', out) := ode_lift_signature (jf_k o) (jf_k o) lift_by in
    if forallb (fun i => Nat.ltb i (length coords)) out
    then match lift o lift_by (firstn (Z.to_nat k') coords) t with
         | None => None
         | Some vals => Some (zipw vsub_ (map (fun i => nth i coords []) out) vals)
         end
    else None.                                     (* IndexError *)

  (* ------------------------------------------------ residual_from_stack *)
  Record resfun : Type := mkRF {
    rf_k : nat;
    rf_eval : list tvec -> F -> option (list (list F))
  }.
  Definition stack_k (parts : list resfun) : nat := fold_right Nat.max 0%nat (map rf_k parts).
  Fixpoint all_some {A : Type} (l : list (option A)) : option (list A) :=
    match l with
    | [] => Some []
    | None :: _ => None
    | Some x :: r => match all_some r with None => None | Some xs => Some (x :: xs) end
    end.
  Definition stack_eval (parts : list resfun) (coords : list tvec) (t : F)
    : option (list (list (list F))) :=
    all_some (map (fun r => rf_eval r (firstn (rf_k r) coords) t) parts).
  Definition residual_from_stack (parts : list resfun) : resfun :=
    mkRF (stack_k parts)
         (fun coords t => match stack_eval parts coords t with
                          | None => None
                          | Some l => Some (concat l)
                          end).
  (* an unlifted residual as a stack part: its wrapper unpacks exactly k coordinates *)
  Definition plain_part (jf : jetfun) : resfun :=
    mkRF (jf_k jf)
         (fun coords t => match jf_eval jf coords t with None => None | Some x => Some [x] end).
  (* a lifted residual as a stack part *)
  Definition lifted_part (jf : jetfun) (lift_by : Z) : resfun :=
    mkRF (Z.to_nat (res_lift_signature (jf_k jf) lift_by)) (lift jf lift_by).
End JetLift.
