(* Multivariate polynomials with coefficients in F as data: the executable
   stand-in for a user vector field / constraint (theorems quantify over
   arbitrary functions instead).  A monomial is (coefficient, exponent list). *)
From Coq Require Import List Arith Bool.
From PD Require Import Base.Field.
Import ListNotations.

Section Poly.
  Context {F : Type} `{FieldOps F}.
  Local Open Scope F_scope.

  Definition mono : Type := (F * list nat)%type.
  Definition poly : Type := list mono.

  Fixpoint eval_exps (env : list F) (es : list nat) : F :=
    match env, es with
    | x :: env', e :: es' => fpow x e * eval_exps env' es'
    | _, _ => 1
    end.
  Definition eval_mono (env : list F) (m : mono) : F := fst m * eval_exps env (snd m).
  Definition eval_poly (env : list F) (p : poly) : F :=
    fold_right (fun m acc => eval_mono env m + acc) 0 p.

  (* d/dx_j *)
  Fixpoint dec_at (j : nat) (es : list nat) : option (nat * list nat) :=
    match es, j with
    | [], _ => None
    | e :: es', O => match e with O => None | S e' => Some (e, e' :: es') end
    | e :: es', S j' =>
      match dec_at j' es' with None => None | Some (k, r) => Some (k, e :: r) end
    end.
  Definition diff_mono (j : nat) (m : mono) : option mono :=
    match dec_at j (snd m) with
    | None => None
    | Some (k, es) => Some (fnat k * fst m, es)
    end.
  Definition diff_poly (j : nat) (p : poly) : poly :=
    flat_map (fun m => match diff_mono j m with None => [] | Some m' => [m'] end) p.
End Poly.
