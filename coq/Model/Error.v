(* Model of the error estimators (solvers.py: error_residual_std,
   error_state_std, error_norm_scale_then_rms, error_norm_rms_then_scale) on
   SQUARED quantities.  The acceptance quantity of the code is
   error_power = norm ** (-1/rate); the model returns norm^2 (scale-then-rms)
   or the pair (mean of squared absolute errors, mean of squared references)
   (rms-then-scale, whose denominator contains a square root). *)
From Coq Require Import List Arith Bool.
From PD Require Import Base.Field Base.Matrix Base.Solve Model.Gauss Model.Poly Model.Prior Model.Solver.
Import ListNotations.

Inductive estimator : Type := ResidualStd | StateStd (derivative_idx : nat).

Section Error.
  Context {F : Type} `{FieldOps F}.
  Local Open Scope F_scope.
  Local Notation mat := (@mat F).
  Local Notation normal := (@normal F).

  Variable inv : nat -> mat -> option mat.

  (* |x| and max on squares are avoided: the harness supplies the reference
     max(|u0|,|u1|) per dimension as exact input *)

  (* squared absolute error per reported component (before dt^n/n!) :
     residual: out2_block * Var(observed)_r ; dense d components, isotropic 1,
     block-diagonal d. state: out2_block * Var(updated)_{idx,a}. *)
  Definition error_sq_components (cf : @config F) (est : estimator)
             (prev_u : list normal) (t_prop dt : F) : option (list F) :=
    let s := cf_shape cf in
    let tr := transition s (cf_base2 cf) dt (ones s) in
    let rv := f_apply_mean s tr prev_u in
    let fx := linearize s (cf_ode cf) (cf_lin cf) (cf_damp2 cf) rv t_prop in
    match est with
    | ResidualStd =>
      let observed := map2 (fun k r => c_marg (sh_N s) (sh_nout s) (sh_c s) k r) fx rv in
      match rms2 inv s observed with
      | None => None
      | Some out2 =>
        Some (flat_map (fun p => map (fun r => fst p * mget (n_cov (snd p)) r r)
                                     (seq 0 (sh_nout s)))
                       (combine out2 observed))
      end
    | StateStd idx =>
      match correct inv s fx rv with
      | None => None
      | Some (obs, upd) =>
        match rms2 inv s obs with
        | None => None
        | Some out2 =>
          Some (match sh_kind s with
                | Dense =>
                  map (fun a => nth 0 out2 0
                                * mget (n_cov (nth_normal upd 0)) (idx * sh_d s + a) (idx * sh_d s + a))
                      (seq 0 (sh_d s))
                | Iso => [nth 0 out2 0 * mget (n_cov (nth_normal upd 0)) idx idx]
                | BlockDiag =>
                  map (fun a => nth a out2 0 * mget (n_cov (nth_normal upd a)) idx idx)
                      (seq 0 (sh_d s))
                end)
        end
      end
    end.

  (* (dt^n / n!)^2 *)
  Definition step_factor2 (dt : F) (n : nat) : F :=
    let x := fpow dt n / ffact n in x * x.

  Definition mean_list (l : list F) : F :=
    fold_right fadd 0 l / fnat (length l).

  (* norm^2 for error_norm_scale_then_rms; [ref] = max(|u0|,|u1|) per dimension
     (d entries); a single error component is broadcast over the d references *)
  Definition norm2_scale_then_rms (errs2 : list F) (fac2 : F) (ref : list F) (atol rtol : F) : F :=
    let d := length ref in
    mean_list (map (fun a =>
                 let e2 := match errs2 with [e] => e | _ => nth a errs2 0 end in
                 let sc := atol + rtol * nth a ref 0 in
                 e2 * fac2 / (sc * sc)) (seq 0 d)).

  (* rms-then-scale: (mean of squared absolute errors, mean of squared references) *)
  Definition parts_rms_then_scale (errs2 : list F) (fac2 : F) (ref : list F) : F * F :=
    (mean_list (map (fun e => e * fac2) errs2), mean_list (map (fun r => r * r) ref)).
End Error.
