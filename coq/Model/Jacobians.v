(* Model of probdiffeq/_probdiffeq/jacobians.py (C17).

   A map f : (n_in, d) -> (n_out, d) has a Jacobian tensor
       J o a i b = d f[o][a] / d x[i][b]
   (output row o, output dimension a, input row i, input dimension b), which
   is exactly the (n_out, d, n_in, d) array returned by jacfwd / jacrev.
   Theorems quantify over ARBITRARY tensors J : nat -> nat -> nat -> nat -> F;
   the executable runner feeds nested lists through [jac_of].

   Transcribed:
     jacobian_materialize.{materialize_dense, calculate_trace_along_d,
                           calculate_diagonal_along_d}
     jacobian_monte_carlo_fwd.{calculate_trace_along_d, calculate_diagonal_along_d}
     jacobian_monte_carlo_rev.{calculate_trace_along_d, calculate_diagonal_along_d}
     Jacobian._verify_fun_and_x
   jvp / vjp are the exact linear maps of J (JAX AD is an oracle, cf. trusted
   base); the random key and the probe generator are oracles [split] and
   [rademacher]. *)
From Coq Require Import List Arith Bool.
From PD Require Import Base.Field Base.Matrix.
Import ListNotations.

Section Jac.
  Context {F : Type} `{FieldOps F}.
  Local Open Scope F_scope.

  (* ------------------------------------------------------------- tensors *)
  Definition jac : Type := nat -> nat -> nat -> nat -> F.
  Definition tensor3 : Type := list (@mat F).
  Definition tensor4 : Type := list tensor3.

  Definition t3get (T : tensor3) (x y z : nat) : F := mget (nth x T []) y z.
  Definition t4get (T : tensor4) (w x y z : nat) : F := t3get (nth w T []) x y z.
  Definition mk3 (p n m : nat) (f : nat -> nat -> nat -> F) : tensor3 :=
    map (fun x => mk n m (f x)) (seq 0 p).
  Definition mk4 (q p n m : nat) (f : nat -> nat -> nat -> nat -> F) : tensor4 :=
    map (fun w => mk3 p n m (f w)) (seq 0 q).
  Definition jac_of (T : tensor4) : jac := t4get T.

  (* np.mean(., axis=0): sum of the slices divided by their number *)
  Definition lsum (l : list F) : F := fold_right fadd 0 l.
  Definition mean_list (l : list F) : F := lsum l / fnat (length l).
  Definition mean_mats (n m : nat) (Ms : list (@mat F)) : @mat F :=
    mk n m (fun r c => mean_list (map (fun M => mget M r c) Ms)).
  Definition mean_t3 (p n m : nat) (Ts : list tensor3) : tensor3 :=
    mk3 p n m (fun x y z => mean_list (map (fun T => t3get T x y z) Ts)).
  (* np.transpose(T, axes=(2, 0, 1)) of a (n0, n1, n2) array: (n2, n0, n1) *)
  Definition transpose_201 (n0 n1 n2 : nat) (T : tensor3) : tensor3 :=
    mk3 n2 n0 n1 (fun z x y => t3get T x y z).

  (* ---------------------------------------- jacobian_materialize (exact) *)
  (* dfx = jacfwd(fun)(x): shape (n_out, d, n_in, d) *)
  Definition materialize_dense (n_in n_out d : nat) (J : jac) : tensor4 :=
    mk4 n_out d n_in d J.
  (* linalg.trace(dfx, axis1=1, axis2=3): shape (n_out, n_in) *)
  Definition trace_along_d (n_in n_out d : nat) (dfx : tensor4) : @mat F :=
    mk n_out n_in (fun o i => vsum d (fun a => t4get dfx o a i a)).
  (* linalg.einsum("mdnd->dmn", dfx): shape (d, n_out, n_in) *)
  Definition diagonal_along_d (n_in n_out d : nat) (dfx : tensor4) : tensor3 :=
    mk3 d n_out n_in (fun a o i => t4get dfx o a i a).

  Definition mat_trace (n_in n_out d : nat) (J : jac) : @mat F :=
    trace_along_d n_in n_out d (materialize_dense n_in n_out d J).
  Definition mat_diagonal (n_in n_out d : nat) (J : jac) : tensor3 :=
    diagonal_along_d n_in n_out d (materialize_dense n_in n_out d J).

  (* ------------------------------- jacobian_monte_carlo_fwd, one probe v *)
  (* Jv = Jvp(v), v : (n_in, d), Jv : (n_out, d) *)
  Definition jvp (n_in n_out d : nat) (J : jac) (V : @mat F) : @mat F :=
    mk n_out d (fun o a =>
      vsum n_in (fun i => vsum d (fun b => J o a i b * mget V i b))).
  (* einsum("smd,snd->snm", v, Jv) for one s: (n_out, n_in) *)
  Definition fwd_trace_est (n_in n_out d : nat) (J : jac) (V : @mat F) : @mat F :=
    let Jv := jvp n_in n_out d J V in
    mk n_out n_in (fun o i => vsum d (fun a => mget V i a * mget Jv o a)).
  (* v[:, None, :, :] * Jv[:, :, None, :] for one s: (n_out, n_in, d) *)
  Definition fwd_diag_est (n_in n_out d : nat) (J : jac) (V : @mat F) : tensor3 :=
    let Jv := jvp n_in n_out d J V in
    mk3 n_out n_in d (fun o i a => mget V i a * mget Jv o a).

  (* ------------------------------- jacobian_monte_carlo_rev, one probe w *)
  (* vjpx = vjp(w), w : (n_out, d), vjpx : (n_in, d) *)
  Definition vjp (n_in n_out d : nat) (J : jac) (W : @mat F) : @mat F :=
    mk n_in d (fun i b =>
      vsum n_out (fun o => vsum d (fun a => mget W o a * J o a i b))).
  (* einsum("snd,smd->smn", vjpx, v) for one s: (n_out, n_in) *)
  Definition rev_trace_est (n_in n_out d : nat) (J : jac) (W : @mat F) : @mat F :=
    let vJ := vjp n_in n_out d J W in
    mk n_out n_in (fun o i => vsum d (fun a => mget vJ i a * mget W o a)).
  (* vjpx[:, None, :, :] * v[:, :, None, :] for one s: (n_out, n_in, d) *)
  Definition rev_diag_est (n_in n_out d : nat) (J : jac) (W : @mat F) : tensor3 :=
    let vJ := vjp n_in n_out d J W in
    mk3 n_out n_in d (fun o i a => mget vJ i a * mget W o a).

  (* ---------------------------- averages over the list of probes (axis 0) *)
  Definition mc_fwd_trace (n_in n_out d : nat) (J : jac) (Vs : list (@mat F)) : @mat F :=
    mean_mats n_out n_in (map (fwd_trace_est n_in n_out d J) Vs).
  Definition mc_fwd_diag (n_in n_out d : nat) (J : jac) (Vs : list (@mat F)) : tensor3 :=
    transpose_201 n_out n_in d
      (mean_t3 n_out n_in d (map (fwd_diag_est n_in n_out d J) Vs)).
  Definition mc_rev_trace (n_in n_out d : nat) (J : jac) (Ws : list (@mat F)) : @mat F :=
    mean_mats n_out n_in (map (rev_trace_est n_in n_out d J) Ws).
  Definition mc_rev_diag (n_in n_out d : nat) (J : jac) (Ws : list (@mat F)) : tensor3 :=
    transpose_201 n_out n_in d
      (mean_t3 n_out n_in d (map (rev_diag_est n_in n_out d J) Ws)).

  (* ------------------------------------------------ all Rademacher probes *)
  (* all 2^N sign vectors of length N *)
  Fixpoint signs (N : nat) : list (list F) :=
    match N with
    | O => [[]]
    | S N' => map (cons 1) (signs N') ++ map (cons (- (1))) (signs N')
    end.
  (* a vector of length n*d read as an (n, d) array, row-major *)
  Definition reshape (n d : nat) (s : list F) : @mat F :=
    mk n d (fun i a => vget s (i * d + a)%nat).
  (* all 2^(n*d) sign tensors of shape (n, d) *)
  Definition all_probes (n d : nat) : list (@mat F) := map (reshape n d) (signs (n * d)).

  (* -------------------------------------------------- the handler calls:
     (fx, block, state') exactly as returned; fx = fun(x) is an input of the
     model.  Stochastic handlers: key, subkey = split(key); probes drawn from
     subkey with shape (num_probes, rows, d); the NEW key is returned. *)
  Section Handlers.
    Variable K : Type.
    Variable split : K -> K * K.
    Variable rademacher : K -> nat -> nat -> nat -> list (@mat F).

    Definition materialize_call (n_in n_out d : nat) (fx : @mat F) (J : jac) (st : K) :=
      (fx, materialize_dense n_in n_out d J, st).
    Definition mat_trace_call (n_in n_out d : nat) (fx : @mat F) (J : jac) (st : K) :=
      (fx, mat_trace n_in n_out d J, st).
    Definition mat_diagonal_call (n_in n_out d : nat) (fx : @mat F) (J : jac) (st : K) :=
      (fx, mat_diagonal n_in n_out d J, st).

    Definition mc_fwd_trace_call (num n_in n_out d : nat) (fx : @mat F) (J : jac) (key : K) :=
      let ks := split key in
      (fx, mc_fwd_trace n_in n_out d J (rademacher (snd ks) num n_in d), fst ks).
    Definition mc_fwd_diag_call (num n_in n_out d : nat) (fx : @mat F) (J : jac) (key : K) :=
      let ks := split key in
      (fx, mc_fwd_diag n_in n_out d J (rademacher (snd ks) num n_in d), fst ks).
    Definition mc_rev_trace_call (num n_in n_out d : nat) (fx : @mat F) (J : jac) (key : K) :=
      let ks := split key in
      (fx, mc_rev_trace n_in n_out d J (rademacher (snd ks) num n_out d), fst ks).
    Definition mc_rev_diag_call (num n_in n_out d : nat) (fx : @mat F) (J : jac) (key : K) :=
      let ks := split key in
      (fx, mc_rev_diag n_in n_out d J (rademacher (snd ks) num n_out d), fst ks).
  End Handlers.
End Jac.

(* --------------------------------------------------- _verify_fun_and_x
   abstract view of an argument: is it an array (x: isinstance(x, Array);
   f(x): eval_shape returned a single ShapeDtypeStruct) and its shape. *)
Record arg_view : Type := mkArg { av_is_array : bool; av_shape : list nat }.

Inductive verdict : Type :=
| Accept (n_in n_out d : nat)
| RejectType      (* raise TypeError *)
| RejectValue.    (* raise ValueError *)

Definition verify_fun_and_x (x fx : arg_view) : verdict :=
  if negb (av_is_array x) || negb (av_is_array fx) then RejectType
  else if negb (Nat.eqb (length (av_shape x)) 2) || negb (Nat.eqb (length (av_shape fx)) 2)
  then RejectValue
  else match av_shape x, av_shape fx with
       | [n_in; d], [n_out; d2] =>
         if negb (Nat.eqb d d2) then RejectValue else Accept n_in n_out d
       | _, _ => RejectValue
       end.
