(* Gaussian conditionals with diagonal input/output scalings, at Gram
   (covariance) level.  One generic block covers
     dense          : N = (q+1) d, means N x 1
     isotropic      : N = q+1,     means N x d (covariance shared by all columns)
     block-diagonal : a list of d blocks with N = q+1, means N x 1.
   Transcribes DenseLatentCond / IsotropicLatentCond / BlockDiagLatentCond
   (apply_flat, marginalise, merge, revert, preconditioner_apply) and the
   Normal operations.  Cholesky factors are represented by their Gram matrices;
   the QR-based square-root arithmetic of the code is an oracle with contract
   R^T R = M^T M (see Proofs/SqrtReadout.v).  Definitions only. *)
From Coq Require Import List Arith Bool.
From PD Require Import Base.Field Base.Matrix Base.Solve.
Import ListNotations.

Section Gauss.
  Context {F : Type} `{FieldOps F}.
  Local Open Scope F_scope.
  Local Notation mat := (@mat F).
  Local Notation vec := (@vec F).

  (* mean: N x c ; cov: N x N *)
  Record normal : Type := mkN { n_mean : mat; n_cov : mat }.
  (* y | x ~ N( to * (A (tl * x) + b), to Q to ) : A nout x nin, b nout x c *)
  Record cond : Type := mkC {
    c_A : mat; c_b : mat; c_Q : mat; c_tl : vec; c_to : vec }.

  (* A P A^T for A n x m, P m x m *)
  Definition sandwich (n m : nat) (A P : mat) : mat :=
    mmul n m n (mmul n m m A P) (mtr n m A).
  (* diag(v) P diag(v) *)
  Definition dsand (n : nat) (v : vec) (P : mat) : mat :=
    mk n n (fun i j => vget v i * mget P i j * vget v j).

  Definition from_linop_and_noise (nin nout : nat) (A : mat) (noise : normal) : cond :=
    mkC A (n_mean noise) (n_cov noise) (vones nin) (vones nout).

  (* LatentCond.apply_flat *)
  Definition c_apply (nin nout c : nat) (K : cond) (x : mat) : normal :=
    let x' := scale_rows nin c (c_tl K) x in
    mkN (scale_rows nout c (c_to K)
           (madd nout c (mmul nout nin c (c_A K) x') (c_b K)))
        (dsand nout (c_to K) (c_Q K)).

  (* LatentCond.marginalise *)
  Definition c_marg (nin nout c : nat) (K : cond) (rv : normal) : normal :=
    let m' := scale_rows nin c (c_tl K) (n_mean rv) in
    let P' := dsand nin (c_tl K) (n_cov rv) in
    mkN (scale_rows nout c (c_to K)
           (madd nout c (mmul nout nin c (c_A K) m') (c_b K)))
        (dsand nout (c_to K)
           (madd nout nout (sandwich nout nin (c_A K) P') (c_Q K))).

  (* LatentCond.merge: self = outer (z|y), other = inner (y|x) *)
  Definition c_merge (nin nmid nout c : nat) (K1 K2 : cond) : cond :=
    let T := vmap2 nmid fmul (c_tl K1) (c_to K2) in
    mkC (mmul nout nmid nin (c_A K1) (scale_rows nmid nin T (c_A K2)))
        (madd nout c (mmul nout nmid c (c_A K1) (scale_rows nmid c T (c_b K2))) (c_b K1))
        (madd nout nout (sandwich nout nmid (c_A K1) (dsand nmid T (c_Q K2))) (c_Q K1))
        (c_tl K2) (c_to K1).

  (* LatentCond.preconditioner_apply *)
  Definition c_plain (nin nout c : nat) (K : cond) : cond :=
    mkC (mk nout nin (fun i j => vget (c_to K) i * mget (c_A K) i j * vget (c_tl K) j))
        (scale_rows nout c (c_to K) (c_b K))
        (dsand nout (c_to K) (c_Q K))
        (vones nin) (vones nout).

  (* LatentCond.revert (cholesky_util.revert_conditional at Gram level).
     [inv] is the certified (pseudo-)inverse oracle. *)
  Definition c_revert (inv : nat -> mat -> option mat) (nin nout c : nat)
             (K : cond) (rv : normal) : option (normal * cond) :=
    let m' := scale_rows nin c (c_tl K) (n_mean rv) in
    let P' := dsand nin (c_tl K) (n_cov rv) in
    let AP := mmul nout nin nin (c_A K) P' in
    let S := madd nout nout (mmul nout nin nout AP (mtr nout nin (c_A K))) (c_Q K) in
    match inv nout S with
    | None => None
    | Some Si =>
      let C := mtr nout nin AP in                      (* P' A^T : nin x nout *)
      let G := mmul nin nout nout C Si in
      let m_obs := madd nout c (mmul nout nin c (c_A K) m') (c_b K) in
      let m_cor := msub nin c m' (mmul nin nout c G m_obs) in
      let P_cor := msub nin nin P' (sandwich nin nout G S) in
      Some (mkN (scale_rows nout c (c_to K) m_obs) (dsand nout (c_to K) S),
            mkC G m_cor P_cor (vinv nout (c_to K)) (vinv nin (c_tl K)))
    end.

  (* AbstractLatentCond.bayes_rule_tree: condition rv on data through K *)
  Definition bayes_rule (inv : nat -> mat -> option mat) (nin nout c : nat)
             (K : cond) (data : mat) (rv : normal) : option (normal * normal) :=
    match c_revert inv nin nout c K rv with
    | None => None
    | Some (obs, bw) => Some (obs, c_apply nout nin c bw data)
    end.

  (* ---- Normal operations ---- *)
  Definition n_rescale (n : nat) (s2 : F) (rv : normal) : normal :=
    mkN (n_mean rv) (mscale n n s2 (n_cov rv)).           (* rescale_cholesky, squared factor *)
  Definition c_rescale_noise (nout : nat) (s2 : F) (K : cond) : cond :=
    mkC (c_A K) (c_b K) (mscale nout nout s2 (c_Q K)) (c_tl K) (c_to K).
  Definition n_var (n : nat) (rv : normal) : vec := mkv n (fun i => mget (n_cov rv) i i). (* std^2 *)

  Definition identity_conditional (n c : nat) : cond :=
    mkC (mid n) (mzero n c) (mzero n n) (vones n) (vones n).

  (* trace (R^T S^-1 R) / (n c): squared residual_whitened_rms of data u *)
  Definition whitened_rms2 (inv : nat -> mat -> option mat) (n c : nat)
             (rv : normal) (u : mat) : option F :=
    match inv n (n_cov rv) with
    | None => None
    | Some Si =>
      let R := msub n c u (n_mean rv) in
      let W := mmul n n c Si R in
      Some (vsum n (fun i => vsum c (fun a => mget R i a * mget W i a))
            / (fnat n * fnat c))
    end.
End Gauss.
